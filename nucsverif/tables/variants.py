"""Catalogue of single-site edits used by the sensitivity self-test (see selftest.py).

kind = "break"   : the edit breaks the named properties; the named checks must exit 1 and name `expect_fn`.
kind = "neutral" : a behaviour-preserving twin (rename, temp, mirrored comparison, equivalent operator); checks must exit 0.

`old` must occur exactly once in `file` (inside the function anchored by `within`, when given); otherwise the
variant is stale on this tree and skipped.  Text is matched on the current working tree at run time.
"""

BC = "nucs/solvers/bound_consistency_algorithm.py"
CP = "nucs/solvers/choice_points.py"
BS = "nucs/solvers/backtrack_solver.py"
SV = "nucs/solvers/solver.py"
MP = "nucs/solvers/multiprocessing_solver.py"
SH = "nucs/solvers/shaving_consistency_algorithm.py"
PB = "nucs/problems/problem.py"
PR = "nucs/propagators/propagators.py"
H = "nucs/heuristics/"
P = "nucs/propagators/"

VARIANTS = []


def V(id, kind, props, file, old, new, what, expect_fn=None, within=None, edits=None, expect_rule=None, also=None):
    d = {"id": id, "kind": kind, "properties": props, "file": file, "what": what}
    if also:
        d["also"] = also
    if edits is not None:
        d["edits"] = edits
    else:
        d["old"], d["new"] = old, new
    if expect_fn:
        d["expect_fn"] = expect_fn
    if expect_rule:
        d["expect_rule"] = expect_rule
    if within:
        d["within"] = within
    VARIANTS.append(d)


# ----------------------------------------------------------------------------------------- propagation loop
V("bc-min-guard-neq", "break", ["C01", "C08", "C04"], BC,
  "if shr_domains_stack[top, shr_domain_idx, MIN] < shr_domain_min:", "if shr_domains_stack[top, shr_domain_idx, MIN] != shr_domain_min:",
  "write-back stores MIN when different instead of when tighter (a stale view widens the shared domain)", "bound_consistency_algorithm")
V("bc-max-guard-neq", "break", ["C01", "C08", "C04"], BC,
  "if shr_domains_stack[top, shr_domain_idx, MAX] > shr_domain_max:", "if shr_domains_stack[top, shr_domain_idx, MAX] != shr_domain_max:",
  "write-back stores MAX when different instead of when tighter", "bound_consistency_algorithm")
V("bc-drop-emptiness", "break", ["C01", "C08"], BC,
  """                if shr_domains_stack[top, shr_domain_idx, MIN] > shr_domains_stack[top, shr_domain_idx, MAX]:
                    statistics[STATS_IDX_PROPAGATOR_INCONSISTENCY_NB] += 1
                    return PROBLEM_INCONSISTENT
""", "", "no emptiness test after intersecting two views of one shared domain", "bound_consistency_algorithm")
V("bc-ground-dropped", "break", ["C01", "C08"], BC,
  "                    events |= EVENT_MASK_GROUND\n", "                    pass\n",
  "write-back never announces GROUND (no_sub_cycle is never woken by propagation)", "bound_consistency_algorithm")
V("bc-min-event-as-max", "break", ["C01", "C08"], BC,
  "                events |= EVENT_MASK_MIN\n", "                events |= EVENT_MASK_MAX\n",
  "a stored MIN is announced as a MAX event", "bound_consistency_algorithm")
V("bc-ground-unconditional", "break", ["C04", "C17"], BC,
  """            if events != 0:
                if shr_domains_stack[top, shr_domain_idx, MIN] > shr_domains_stack[top, shr_domain_idx, MAX]:""",
  """            if shr_domains_stack[top, shr_domain_idx, MIN] == shr_domains_stack[top, shr_domain_idx, MAX]:
                events |= EVENT_MASK_GROUND
            if events != 0:
                if shr_domains_stack[top, shr_domain_idx, MIN] > shr_domains_stack[top, shr_domain_idx, MAX]:""",
  "GROUND announced for an unchanged ground position (livelock of two GROUND-triggered propagators)", "bound_consistency_algorithm")
V("bc-announce-wrong-dom", "break", ["C01", "C08"], BC,
  "                    shr_domain_idx,\n                    events,", "                    var_idx,\n                    events,",
  "write-back announces the position in the constraint instead of the shared domain index", "bound_consistency_algorithm")
V("bc-flags-row-level0-neutral", "neutral", ["C07", "C01", "C08"], BC,
  "                    not_entailed_propagators_stack[top],", "                    not_entailed_propagators_stack[0],",
  "wake-up consults the enabled flags of level 0: a superset of the current row (lower rows are frozen copies), only costs useless executions")
V("bc-flags-row-above", "break", ["C07", "C01", "C08"], BC,
  "                    not_entailed_propagators_stack[top],", "                    not_entailed_propagators_stack[top + 1],",
  "wake-up consults the stale row above the current level", "bound_consistency_algorithm")
V("bc-entail-any-nonfail", "break", ["C07", "C01"], BC,
  "        if status == PROP_ENTAILMENT:", "        if status != PROP_INCONSISTENCY:",
  "constraint disabled on any non-failing answer", "bound_consistency_algorithm")
V("bc-entail-wrong-level", "break", ["C07", "C01"], BC,
  "not_entailed_propagators_stack[top, prop_idx] = False", "not_entailed_propagators_stack[0, prop_idx] = False",
  "entailed constraint disabled at level 0 (survives backtracking)", "bound_consistency_algorithm")
V("bc-entail-wrong-prop", "break", ["C07", "C01"], BC,
  "not_entailed_propagators_stack[top, prop_idx] = False", "not_entailed_propagators_stack[top, algorithms[prop_idx]] = False",
  "disables the constraint whose index equals the algorithm id", "bound_consistency_algorithm")
V("bc-counter-filter-dropped", "break", ["C17"], BC,
  "        statistics[STATS_IDX_PROPAGATOR_FILTER_NB] += 1\n", "", "filter counter not incremented", "bound_consistency_algorithm")
V("bc-counter-nochange-inverted", "break", ["C17"], BC,
  "        if not shr_domains_changes:", "        if shr_domains_changes:", "no-change counter counts the changing executions", "bound_consistency_algorithm")
V("bc-counter-entail-idx", "break", ["C17"], BC,
  "            statistics[STATS_IDX_PROPAGATOR_ENTAILMENT_NB] += 1", "            statistics[STATS_IDX_PROPAGATOR_FILTER_NO_CHANGE_NB] += 1",
  "entailment counted in the no-change counter", "bound_consistency_algorithm")
V("bc-counter-inconsistency-missing-on-empty", "break", ["C17"], BC,
  """                    statistics[STATS_IDX_PROPAGATOR_INCONSISTENCY_NB] += 1
                    return PROBLEM_INCONSISTENT
                if""", """                    return PROBLEM_INCONSISTENT
                if""", "failure through an empty intersection not counted", "bound_consistency_algorithm")
V("bc-counter-bc-twice", "break", ["C17"], BC,
  "    statistics[STATS_IDX_ALG_BC_NB] += 1\n", "    statistics[STATS_IDX_ALG_BC_NB] += 2\n", "pass counter += 2", "bound_consistency_algorithm")
V("bc-offset-sign", "break", ["C13", "C01"], BC,
  "shr_domain_min = prop_domains[var_idx, MIN] - prop_offsets[var_idx, 0]", "shr_domain_min = prop_domains[var_idx, MIN] + prop_offsets[var_idx, 0]",
  "write-back adds the offset instead of subtracting it", "bound_consistency_algorithm")
V("bc-offset-other-var", "break", ["C13", "C01"], BC,
  "shr_domain_max = prop_domains[var_idx, MAX] - prop_offsets[var_idx, 0]", "shr_domain_max = prop_domains[var_idx, MAX] - prop_offsets[0, 0]",
  "write-back subtracts the offset of position 0", "bound_consistency_algorithm")
V("bc-solved-ignores-queue", "break", ["C01", "C08"], BC,
  "        if prop_idx == -1:\n            return", "        if prop_idx == -1 or is_solved(shr_domains_stack, stacks_top):\n            return",
  "pass ends as soon as all domains are ground, with constraints still queued", "bound_consistency_algorithm")
V("bc-dispatch-index", "break", ["C15"], BC,
  "COMPUTE_DOMAINS_FCTS[algorithms[prop_idx]]", "COMPUTE_DOMAINS_FCTS[prop_idx]",
  "interpreted dispatch indexes the registry with the constraint index", "bound_consistency_algorithm")
V("bc-clears-own-flag", "break", ["C01", "C08", "C13"], BC,
  "        if not shr_domains_changes:\n", "        triggered_propagators[prop_idx] = False\n        if not shr_domains_changes:\n",
  "the loop clears the flag of the constraint it just ran after its write-back (self-requeue discarded)", "bound_consistency_algorithm")
V("bc-neutral-or-assign", "neutral", ["C01", "C04", "C08", "C17"], BC,
  "                events |= EVENT_MASK_MIN\n", "                events = events | EVENT_MASK_MIN\n", "|= written as = |")
V("bc-neutral-mirrored-guard", "neutral", ["C01", "C04", "C08"], BC,
  "if shr_domains_stack[top, shr_domain_idx, MIN] < shr_domain_min:", "if shr_domain_min > shr_domains_stack[top, shr_domain_idx, MIN]:",
  "mirrored comparison")
V("bc-neutral-temp-row", "neutral", ["C01", "C07", "C08"], BC,
  """                add_propagators(
                    triggered_propagators,
                    not_entailed_propagators_stack[top],""", """                enabled_row = not_entailed_propagators_stack[top]
                add_propagators(
                    triggered_propagators,
                    enabled_row,""", "flags row hoisted into a local")
V("bc-neutral-counter-moved-in-block", "neutral", ["C17"], BC,
  """            not_entailed_propagators_stack[top, prop_idx] = False
            statistics[STATS_IDX_PROPAGATOR_ENTAILMENT_NB] += 1""", """            statistics[STATS_IDX_PROPAGATOR_ENTAILMENT_NB] += 1
            not_entailed_propagators_stack[top, prop_idx] = False""", "increment moved within its basic block")

# ------------------------------------------------------------------------------------------ queue primitives
V("pop-no-fallback", "break", ["C01", "C08"], PR,
  """    if previous_prop_idx != -1 and triggered_propagators[previous_prop_idx]:
        # nothing else is queued: the propagator that just ran has been re-queued by its own write-back
        triggered_propagators[previous_prop_idx] = False
        return previous_prop_idx
""", "", "queue reported empty while the just-run propagator is flagged", "pop_propagator")
V("pop-discards-self", "break", ["C01", "C08"], PR,
  """    if previous_prop_idx != -1 and triggered_propagators[previous_prop_idx]:
        # nothing else is queued: the propagator that just ran has been re-queued by its own write-back
        triggered_propagators[previous_prop_idx] = False
        return previous_prop_idx
""", """    if previous_prop_idx != -1:
        triggered_propagators[previous_prop_idx] = False
""", "the self-requeued propagator is discarded (flag cleared) instead of being run again", "pop_propagator")
V("addprop-ignores-entailed-neutral", "neutral", ["C07", "C01", "C08"], PR,
  "if not_entailed_propagators[prop_idx] and triggers[dom_idx, prop_idx] & events != 0:", "if triggers[dom_idx, prop_idx] & events != 0:",
  "disabled (entailed) constraints are woken again: useless executions, no behavioural change")
V("addprop-clears", "break", ["C01", "C08"], PR,
  "            triggered_propagators[prop_idx] = True", "            triggered_propagators[prop_idx] = not triggered_propagators[prop_idx]",
  "wake-up toggles the flag: a constraint already queued is un-queued", "add_propagators")
V("addprop-skips-first", "break", ["C01", "C08"], PR,
  "    for prop_idx in range(len(triggered_propagators)):\n        if not_entailed", "    for prop_idx in range(1, len(triggered_propagators)):\n        if not_entailed",
  "constraint 0 is never woken", "add_propagators")
V("addprop-needs-all-bits", "break", ["C08", "C01"], PR,
  "triggers[dom_idx, prop_idx] & events != 0:", "triggers[dom_idx, prop_idx] & events == events:",
  "a constraint is woken only when it watches all announced bits", "add_propagators")
V("addprop-neutral-nested-if", "neutral", ["C01", "C07", "C08"], PR,
  """        if not_entailed_propagators[prop_idx] and triggers[dom_idx, prop_idx] & events != 0:
            triggered_propagators[prop_idx] = True""", """        if not_entailed_propagators[prop_idx]:
            if triggers[dom_idx, prop_idx] & events != 0:
                triggered_propagators[prop_idx] = True""", "conjunction written as nested ifs")

# ---------------------------------------------------------------------------------------------- choice points
V("cpput-no-flags-copy", "break", ["C09", "C07", "C02"], CP,
  "    not_entailed_propagators_stack[cp_top_idx + 1, :] = not_entailed_propagators_stack[cp_top_idx, :]\n", "",
  "push does not copy the enabled flags", "cp_put")
V("cpput-copy-from-zero", "break", ["C09", "C02"], CP,
  "shr_domains_stack[cp_top_idx + 1, :, :] = shr_domains_stack[cp_top_idx, :, :]", "shr_domains_stack[cp_top_idx + 1, :, :] = shr_domains_stack[0, :, :]",
  "push copies level 0 instead of the current level", "cp_put")
V("backtrack-dec2", "break", ["C09", "C02"], CP, "    stacks_top[0] -= 1\n", "    stacks_top[0] -= 2\n", "pop removes two levels", "backtrack")
V("backtrack-no-events", "break", ["C09", "C02"], CP,
  "        dom_update_stack[stacks_top[0], DOM_UPDATE_EVENTS],", "        0,", "alternative's events not replayed", "backtrack")
V("backtrack-stale-row", "break", ["C09", "C07"], CP,
  "        not_entailed_propagators_stack[stacks_top[0]],", "        not_entailed_propagators_stack[stacks_top[0] + 1],",
  "replay consults the abandoned level's enabled flags", "backtrack")
V("backtrack-counter-early", "break", ["C17"], CP,
  edits=[{"old": "    if stacks_top[0] == 0:\n        return False\n    stacks_top[0] -= 1\n    statistics[STATS_IDX_SOLVER_BACKTRACK_NB] += 1\n",
          "new": "    statistics[STATS_IDX_SOLVER_BACKTRACK_NB] += 1\n    if stacks_top[0] == 0:\n        return False\n    stacks_top[0] -= 1\n"}],
  old=None, new=None, what="backtrack counted even when there is nothing to pop", expect_fn="backtrack")
V("cpinit-no-flags", "break", ["C09", "C07"], CP, "    not_entailed_propagators_stack[0] = True\n", "", "restart keeps stale disabled flags", "cp_init")
V("cpinit-top-one", "break", ["C09"], CP, "    stacks_top[0] = 0\n", "    stacks_top[0] = 1\n", "init leaves the pointer at 1", "cp_init")
V("cpput-neutral-rename", "neutral", ["C09", "C02", "C07"], CP,
  edits=[{"old": "cp_top_idx", "new": "lvl", "all": True, "within": "def cp_put"}], old=None, new=None, what="local renamed")

# ------------------------------------------------------------------------------------------- value heuristics
V("minvalue-alt-overlaps", "break", ["C09", "C02"], H + "min_value_dom_heuristic.py",
  "shr_domains_stack[cp_cur_idx, dom_idx, MIN] = value + 1", "shr_domains_stack[cp_cur_idx, dom_idx, MIN] = value",
  "alternative keeps the chosen value (duplicate solutions)", "min_value_dom_heuristic")
V("minvalue-return-no-ground", "break", ["C09", "C02"], H + "min_value_dom_heuristic.py",
  "    return EVENT_MASK_MAX_GROUND", "    return EVENT_MASK_MAX", "branch does not announce GROUND", "min_value_dom_heuristic")
V("minvalue-alt-event-max", "break", ["C09", "C02"], H + "min_value_dom_heuristic.py",
  "        else EVENT_MASK_MIN\n", "        else EVENT_MASK_MAX\n", "alternative recorded with the wrong bound event", "min_value_dom_heuristic")
V("maxvalue-store-wrong-level", "break", ["C09", "C02"], H + "max_value_dom_heuristic.py",
  "shr_domains_stack[cp_cur_idx + 1, dom_idx, MIN] = value", "shr_domains_stack[cp_cur_idx, dom_idx, MIN] = value",
  "branch store lands in the alternative's level", "max_value_dom_heuristic")
V("maxvalue-record-wrong-idx", "break", ["C09", "C02"], H + "max_value_dom_heuristic.py",
  "dom_update_stack[cp_cur_idx, DOM_UPDATE_IDX] = dom_idx", "dom_update_stack[cp_cur_idx, DOM_UPDATE_IDX] = cp_cur_idx",
  "alternative recorded for the wrong domain", "max_value_dom_heuristic")
V("splitlow-alt-no-plus1", "break", ["C09", "C02"], H + "split_low_dom_heuristic.py",
  "shr_domains_stack[cp_cur_idx, dom_idx, MIN] = value + 1", "shr_domains_stack[cp_cur_idx, dom_idx, MIN] = value",
  "halves overlap", "split_low_dom_heuristic")
V("splitlow-ceil-mid", "break", ["C09", "C02", "C04"], H + "split_low_dom_heuristic.py",
  "shr_domains_stack[cp_cur_idx, dom_idx, MAX]) // 2", "shr_domains_stack[cp_cur_idx, dom_idx, MAX] + 1) // 2",
  "midpoint rounded up: upper half empty for size 2", "split_low_dom_heuristic")
V("splitlow-return-plain-max", "break", ["C09", "C02"], H + "split_low_dom_heuristic.py",
  """    return (
        EVENT_MASK_MAX_GROUND
        if shr_domains_stack[cp_cur_idx + 1, dom_idx, MIN] == shr_domains_stack[cp_cur_idx + 1, dom_idx, MAX]
        else EVENT_MASK_MAX
    )""", "    return EVENT_MASK_MAX", "kept half may be a singleton but GROUND is not announced", "split_low_dom_heuristic")
V("value-alt-keeps-value", "break", ["C09", "C02"], H + "value_dom_heuristic.py",
  "shr_domains_stack[cp_cur_idx + 1, dom_idx, MAX] = value - 1", "shr_domains_stack[cp_cur_idx + 1, dom_idx, MAX] = value",
  "lower alternative still contains the chosen value", "value_dom_heuristic")
V("value-one-push", "break", ["C09", "C02"], H + "value_dom_heuristic.py",
  "    cp_put(shr_domains_stack, not_entailed_propagators_stack, stacks_top)\n    cp_put(shr_domains_stack, not_entailed_propagators_stack, stacks_top)\n",
  "    cp_put(shr_domains_stack, not_entailed_propagators_stack, stacks_top)\n", "three-way split with a single push", "value_dom_heuristic")
V("value-return-min-ground", "break", ["C09", "C02"], H + "value_dom_heuristic.py",
  "    return EVENT_MASK_MIN_MAX_GROUND", "    return EVENT_MASK_MIN_GROUND", "branch moves both bounds but announces only MIN", "value_dom_heuristic")
V("minvalue-neutral-temp", "neutral", ["C09", "C02", "C04"], H + "min_value_dom_heuristic.py",
  "    shr_domains_stack[cp_cur_idx, dom_idx, MIN] = value + 1\n", "    nxt = value + 1\n    shr_domains_stack[cp_cur_idx, dom_idx, MIN] = nxt\n", "temp for value+1")
V("minvalue-neutral-reorder", "neutral", ["C09", "C02"], H + "min_value_dom_heuristic.py",
  "    shr_domains_stack[cp_cur_idx + 1, dom_idx, MAX] = value\n    shr_domains_stack[cp_cur_idx, dom_idx, MIN] = value + 1\n",
  "    shr_domains_stack[cp_cur_idx, dom_idx, MIN] = value + 1\n    shr_domains_stack[cp_cur_idx + 1, dom_idx, MAX] = value\n", "two independent stores reordered")
V("maxvalue-neutral-or-bits", "neutral", ["C09", "C02"], H + "max_value_dom_heuristic.py",
  "    return EVENT_MASK_MIN_GROUND", "    return EVENT_MASK_MIN | EVENT_MASK_GROUND",
  "combined constant written as OR of bits (EVENT_MASK_GROUND/EVENT_MASK_MIN imported below)",
  edits=[{"old": "    return EVENT_MASK_MIN_GROUND", "new": "    return EVENT_MASK_MIN | EVENT_MASK_GROUND"},
         {"old": "    EVENT_MASK_MAX,\n", "new": "    EVENT_MASK_MAX,\n    EVENT_MASK_MIN,\n    EVENT_MASK_GROUND,\n"}])

# ------------------------------------------------------------------------------------------------ search loop
V("solveone-guard-weak", "break", ["C19", "C16"], BS,
  "if stacks_top[0] >= len(shr_domains_stack) - 2:", "if stacks_top[0] >= len(shr_domains_stack) - 1:",
  "capacity guard allows a double push at the last free level", "solve_one")
V("solveone-guard-removed", "break", ["C19", "C16"], BS,
  """            if stacks_top[0] >= len(shr_domains_stack) - 2:  # a value heuristic pushes at most two choice points
                raise IndexError("The choice points stack is full, please increase stack_max_height")
""", "", "no capacity guard before the value heuristic", "solve_one")
_CP_CHECK = {"old": "    cp_top_idx = stacks_top[0]\n    shr_domains_stack[cp_top_idx + 1, :, :]",
             "new": "    cp_top_idx = stacks_top[0]\n    if cp_top_idx + 1 >= len(shr_domains_stack):\n        raise IndexError(\"The choice points stack is full\")\n    shr_domains_stack[cp_top_idx + 1, :, :]",
             "within": "def cp_put"}
V("stack-check-moved-into-cp-put", "break", ["C04", "C15", "C19"], BS,
  """            if stacks_top[0] >= len(shr_domains_stack) - 2:  # a value heuristic pushes at most two choice points
                raise IndexError("The choice points stack is full, please increase stack_max_height")
""", "", "the 'stack is full' check raised behind a function pointer: swallowed by compiled code, the search spins for ever", "cp_put",
  also=[{"file": CP, "edits": [_CP_CHECK]}])
V("stack-check-moved-into-cp-put-memory-safe", "neutral", ["C16", "C10"], BS,
  """            if stacks_top[0] >= len(shr_domains_stack) - 2:  # a value heuristic pushes at most two choice points
                raise IndexError("The choice points stack is full, please increase stack_max_height")
""", "", "the same change does not write out of bounds: the push primitive refuses a full stack",
  also=[{"file": CP, "edits": [_CP_CHECK]}])
V("cp-put-defensive-check-neutral", "neutral", ["C04", "C15", "C16", "C19"], CP, None, None,
  "a defensive 'stack is full' check added to cp_put while solve_one and the shaving probe keep their guards: unreachable", edits=[_CP_CHECK])
V("heuristic-raise-behind-pointer", "break", ["C15"], H + "min_cost_dom_heuristic.py", None, None,
  "a value heuristic reports a cost table that is too short by raising: ValueError interpreted, 'Exception ignored' and an arbitrary decision compiled", "min_cost_dom_heuristic",
  within="def min_cost_dom_heuristic", edits=[{"old": "    best_cost = sys.maxsize\n", "new": "    if len(params) <= dom_idx:\n        raise ValueError(\"no costs for this variable\")\n    best_cost = sys.maxsize\n"}])
V("heuristic-dead-assert-neutral", "neutral", ["C04", "C15", "C19"], H + "max_value_dom_heuristic.py", None, None,
  "an assertion of an invariant in a value heuristic (listed as undecided, not reported)",
  within="def max_value_dom_heuristic", edits=[{"old": "    cp_put(", "new": "    assert dom_idx >= 0\n    cp_put("}])
V("solveone-events-masked", "break", ["C09", "C01", "C08"], BS,
  "                dom_idx,\n                events,\n            )\n            statistics[STATS_IDX_SOLVER_CHOICE_NB] += 1",
  "                dom_idx,\n                events & 3,\n            )\n            statistics[STATS_IDX_SOLVER_CHOICE_NB] += 1",
  "GROUND bit of the decision dropped at hand-over", "solve_one")
V("solveone-row-above", "break", ["C07", "C09", "C01"], BS,
  "                not_entailed_propagators_stack[stacks_top[0]],\n                triggers,\n                dom_idx,",
  "                not_entailed_propagators_stack[stacks_top[0] + 1],\n                triggers,\n                dom_idx,", "decision announced against the stale row above the new top", "solve_one")
V("solveone-row-level0-neutral", "neutral", ["C07", "C09", "C01"], BS,
  "                not_entailed_propagators_stack[stacks_top[0]],\n                triggers,\n                dom_idx,",
  "                not_entailed_propagators_stack[0],\n                triggers,\n                dom_idx,", "decision announced against level 0's flags (a superset of the current row)")
V("solveone-choice-counter-under-depth", "break", ["C17"], BS,
  """            statistics[STATS_IDX_SOLVER_CHOICE_NB] += 1
            if stacks_top[0] > statistics[STATS_IDX_SOLVER_CHOICE_DEPTH]:
                statistics[STATS_IDX_SOLVER_CHOICE_DEPTH] = stacks_top[0]""",
  """            if stacks_top[0] > statistics[STATS_IDX_SOLVER_CHOICE_DEPTH]:
                statistics[STATS_IDX_SOLVER_CHOICE_NB] += 1
                statistics[STATS_IDX_SOLVER_CHOICE_DEPTH] = stacks_top[0]""", "choices counted only when the depth record moves", "solve_one")
V("solveone-solution-counter-dropped", "break", ["C17"], BS,
  "            statistics[STATS_IDX_SOLVER_SOLUTION_NB] += 1\n", "", "solutions not counted", "solve_one")
V("solveone-depth-ge", "neutral", ["C17"], BS,
  "            if stacks_top[0] > statistics[STATS_IDX_SOLVER_CHOICE_DEPTH]:", "            if stacks_top[0] >= statistics[STATS_IDX_SOLVER_CHOICE_DEPTH]:",
  "max update with >= (same result)")
V("solveone-return-on-unbound", "break", ["C01"], BS,
  "        if status == PROBLEM_BOUND:\n            statistics[STATS_IDX_SOLVER_SOLUTION_NB] += 1",
  "        if status != PROBLEM_INCONSISTENT:\n            statistics[STATS_IDX_SOLVER_SOLUTION_NB] += 1", "a vector is returned for an unsolved state", "solve_one")
V("solveone-dispatch-cross", "break", ["C15"], BS,
  "var_heuristic_fct = VAR_HEURISTIC_FCTS[var_heuristic_idx]", "var_heuristic_fct = VAR_HEURISTIC_FCTS[dom_heuristic_idx]",
  "interpreted mode picks the variable heuristic with the value heuristic's index", "solve_one")
V("addresses-order-swapped", "break", ["C15"], BS,
  """        np.array(build_function_address_list(VAR_HEURISTIC_FCTS, SIGNATURE_VAR_HEURISTIC)),
        np.array(build_function_address_list(DOM_HEURISTIC_FCTS, SIGNATURE_DOM_HEURISTIC)),""",
  """        np.array(build_function_address_list(DOM_HEURISTIC_FCTS, SIGNATURE_DOM_HEURISTIC)),
        np.array(build_function_address_list(VAR_HEURISTIC_FCTS, SIGNATURE_VAR_HEURISTIC)),""", "address tuple components swapped", "solve_one")
V("solve-double-backtrack", "break", ["C02"], BS,
  edits=[{"old": "            yield solution\n            if not backtrack(", "new": "            yield solution\n            backtrack(self.statistics, self.not_entailed_propagators_stack, self.dom_update_stack, self.stacks_top, self.triggered_propagators, self.problem.triggers)\n            if not backtrack("}],
  old=None, new=None, what="two backtracks between two deliveries (skips a subtree)", expect_fn="solve")
V("solve-no-backtrack", "break", ["C02"], BS,
  edits=[{"old": "            yield solution\n            if not backtrack(\n                self.statistics,\n                self.not_entailed_propagators_stack,\n                self.dom_update_stack,\n                self.stacks_top,\n                self.triggered_propagators,\n                self.problem.triggers,\n            ):\n                break\n",
          "new": "            yield solution\n"}], old=None, new=None, what="no backtrack after a delivery (same solution again)", expect_fn="solve")

# -------------------------------------------------------------------------------------------------- optimise
V("opt-tighten-before-reset", "break", ["C03"], BS, None, None, "tightening erased by the reset that follows it", "optimize",
  within="    def optimize(self",
  edits=[{"old": """            reset(
                self.problem,
                self.shr_domains_stack,
                self.not_entailed_propagators_stack,
                self.dom_update_stack,
                self.stacks_top,
                self.triggered_propagators,
            )
            update_domain_fct(
                self.shr_domains_stack,
                self.stacks_top,
                self.problem.dom_indices_arr,
                self.problem.dom_offsets_arr,
                variable_idx,
                best_solution[variable_idx],
            )
""", "new": """            update_domain_fct(
                self.shr_domains_stack,
                self.stacks_top,
                self.problem.dom_indices_arr,
                self.problem.dom_offsets_arr,
                variable_idx,
                best_solution[variable_idx],
            )
            reset(
                self.problem,
                self.shr_domains_stack,
                self.not_entailed_propagators_stack,
                self.dom_update_stack,
                self.stacks_top,
                self.triggered_propagators,
            )
"""}])
V("opt-no-empty-check", "break", ["C03"], BS,
  """            if is_empty(self.shr_domains_stack, self.stacks_top, self.problem.dom_indices_arr, variable_idx):
                break  # the incumbent was at the bound of the initial domain: it is optimal
        return best_solution""", "        return best_solution", "search restarted on an empty objective domain", "optimize")
V("opt-queue-no-empty-check", "break", ["C03"], BS,
  """            if is_empty(self.shr_domains_stack, self.stacks_top, self.problem.dom_indices_arr, variable_idx):
                break  # the incumbent was at the bound of the initial domain: it is optimal
        solution_queue.put""", "        solution_queue.put", "worker restarts on an empty objective domain", "optimize_and_queue")
V("opt-wrong-var-tightened", "break", ["C03"], BS,
  "                variable_idx,\n                best_solution[variable_idx],", "                0,\n                best_solution[variable_idx],",
  "tightens variable 0 instead of the objective", "optimize")
V("minimize-uses-increase", "break", ["C03"], BS,
  "        return self.optimize(variable_idx, decrease_max)", "        return self.optimize(variable_idx, increase_min)", "minimize tightens the lower bound", "minimize")
V("decmax-no-minus1", "break", ["C03", "C04"], SV,
  "MAX] = value - 1 - dom_offsets_arr[var_idx]", "MAX] = value - dom_offsets_arr[var_idx]", "tightening is not strict (same incumbent again: no termination)", "decrease_max")
V("decmax-offset-sign", "break", ["C03", "C13", "C04"], SV,
  "MAX] = value - 1 - dom_offsets_arr[var_idx]", "MAX] = value - 1 + dom_offsets_arr[var_idx]", "offset added instead of subtracted", "decrease_max")
V("incmin-stores-max", "break", ["C03"], SV,
  "dom_indices_arr[var_idx], MIN] = value + 1 - dom_offsets_arr[var_idx]", "dom_indices_arr[var_idx], MAX] = value + 1 - dom_offsets_arr[var_idx]",
  "increase_min writes the upper bound", "increase_min")
V("incmin-var-as-dom", "break", ["C03", "C13"], SV,
  "shr_domains_stack[stacks_top[0], dom_indices_arr[var_idx], MIN] = value + 1", "shr_domains_stack[stacks_top[0], var_idx, MIN] = value + 1",
  "variable index used as shared-domain index", "increase_min")
V("solution-no-offset", "break", ["C01", "C13"], SV,
  "return shr_domains_stack[stacks_top[0], dom_indices_arr, MIN] + dom_offsets_arr", "return shr_domains_stack[stacks_top[0], dom_indices_arr, MIN]",
  "solution vector without offsets", "get_solution")
V("solved-level-below", "break", ["C01", "C02"], SV,
  "np.equal(shr_domains_stack[stacks_top[0], :, MIN], shr_domains_stack[stacks_top[0], :, MAX])", "np.equal(shr_domains_stack[stacks_top[0] + 1, :, MIN], shr_domains_stack[stacks_top[0] + 1, :, MAX])",
  "solved test looks at the level above the current one (stale data of an abandoned branch)", "is_solved")
V("solved-level0-valid", "neutral", ["C01"], SV,
  "np.equal(shr_domains_stack[stacks_top[0], :, MIN], shr_domains_stack[stacks_top[0], :, MAX])", "np.equal(shr_domains_stack[0, :, MIN], shr_domains_stack[0, :, MAX])",
  "the same edit as solved-level0 seen from C01: what is ground at the root is ground at every level, nothing invalid is reported")
V("solved-level0", "break", ["C02", "C03"], SV,
  "np.equal(shr_domains_stack[stacks_top[0], :, MIN], shr_domains_stack[stacks_top[0], :, MAX])", "np.equal(shr_domains_stack[0, :, MIN], shr_domains_stack[0, :, MAX])",
  "solved test looks at level 0", "is_solved")
V("reset-partial-requeue", "break", ["C01", "C03", "C08"], BS,
  "    triggered_propagators.fill(True)\n", "    triggered_propagators.fill(False)\n    triggered_propagators[0] = True\n", "restart re-queues only one constraint", "reset")
V("init-queue-full-neutral", "neutral", ["C01", "C08"], BS,
  "self.triggered_propagators = np.ones(problem.propagator_nb, dtype=np.bool)", "self.triggered_propagators = np.full(problem.propagator_nb, True, dtype=np.bool)",
  "initial queue built with np.full(True)")
V("init-queue-zeros", "break", ["C01", "C08"], BS,
  "self.triggered_propagators = np.ones(problem.propagator_nb, dtype=np.bool)", "self.triggered_propagators = np.zeros(problem.propagator_nb, dtype=np.bool)",
  "a new solver starts with an empty queue", "__init__")
V("reset-no-fill", "break", ["C03", "C01"], BS, "    triggered_propagators.fill(True)\n", "", "restart does not re-queue the constraints", "reset")
V("decmax-neutral-temp", "neutral", ["C03", "C13", "C01"], SV,
  "    shr_domains_stack[stacks_top[0], dom_indices_arr[var_idx], MAX] = value - 1 - dom_offsets_arr[var_idx]",
  "    off = dom_offsets_arr[var_idx]\n    shr_domains_stack[stacks_top[0], dom_indices_arr[var_idx], MAX] = value - off - 1", "offset in a temp, terms reordered")

# --------------------------------------------------------------------------------------------- multiprocessing
V("mp-min-uses-gt", "break", ["C03", "C11"], MP,
  'return self.optimize(variable_idx, "minimize_and_queue", operator.lt)', 'return self.optimize(variable_idx, "minimize_and_queue", operator.gt)',
  "keep-best comparison does not match the direction", "minimize")
V("mp-min-runs-maximize", "break", ["C03", "C11"], MP,
  'return self.optimize(variable_idx, "minimize_and_queue", operator.lt)', 'return self.optimize(variable_idx, "maximize_and_queue", operator.lt)',
  "workers maximise while the parent keeps the smallest", "minimize")
V("mp-count-every-message", "break", ["C11"], MP, None, None, "marker counter decremented on every message", "solve", within="    def solve(self)",
  edits=[{"old": "            if solution is None:\n                finished[proc_idx] = True\n                nb -= 1\n            else:\n                yield solution",
          "new": "            nb -= 1\n            if solution is None:\n                finished[proc_idx] = True\n            else:\n                yield solution"}])
V("mp-worker-no-marker", "break", ["C11"], BS, None, None, "worker ends without its completion marker when the search is exhausted by backtrack", "solve_and_queue",
  within="    def solve_and_queue(self",
  edits=[{"old": "            ):\n                break\n        solution_queue.put((processor_idx, None, self.statistics))", "new": "            ):\n                return\n        solution_queue.put((processor_idx, None, self.statistics))"}])
V("mp-marker-wrong-id", "break", ["C11"], BS, None, None, "marker carries worker id 0", "solve_and_queue", within="    def solve_and_queue(self",
  edits=[{"old": "        solution_queue.put((processor_idx, None, self.statistics))", "new": "        solution_queue.put((0, None, self.statistics))"}])
V("mp-stats-slot0", "break", ["C11", "C17"], MP, None, None, "every worker's statistics land in slot 0", "solve", within="    def solve(self)",
  edits=[{"old": "            self.statistics[proc_idx] = statistics", "new": "            self.statistics[0] = statistics"}])
V("mp-depth-summed", "break", ["C17", "C11"], MP,
  "STATS_LBL_SOLVER_CHOICE_DEPTH: max_stats(self.statistics, STATS_IDX_SOLVER_CHOICE_DEPTH)", "STATS_LBL_SOLVER_CHOICE_DEPTH: sum_stats(self.statistics, STATS_IDX_SOLVER_CHOICE_DEPTH)",
  "depth aggregated by sum", "get_statistics")
V("mp-labels-crossed", "break", ["C17"], MP,
  "STATS_LBL_SOLVER_BACKTRACK_NB: sum_stats(self.statistics, STATS_IDX_SOLVER_BACKTRACK_NB)", "STATS_LBL_SOLVER_BACKTRACK_NB: sum_stats(self.statistics, STATS_IDX_SOLVER_CHOICE_NB)",
  "backtrack label reports the choice counter", "get_statistics")
V("bs-labels-crossed", "break", ["C17"], BS,
  "STATS_LBL_ALG_SHAVING_CHANGE_NB: int(self.statistics[STATS_IDX_ALG_SHAVING_CHANGE_NB])", "STATS_LBL_ALG_SHAVING_CHANGE_NB: int(self.statistics[STATS_IDX_ALG_SHAVING_NO_CHANGE_NB])",
  "label reports another counter", "get_statistics")
V("mp-get-no-timeout", "break", ["C18"], MP,
  "        try:\n            return solutions.get(timeout=QUEUE_TIMEOUT)\n        except Empty:\n            dead",
  "        try:\n            return solutions.get()\n        except Empty:\n            dead", "blocking read without timeout", "MultiprocessingSolver")
V("mp-handles-dropped", "break", ["C18"], MP, None, None, "process handles not retained", "solve", within="    def solve(self)",
  edits=[{"old": "            processes.append(process)\n", "new": ""}])
V("mp-no-raise-on-dead", "break", ["C18"], MP,
  '                    raise RuntimeError(f"Processes {dead} terminated before announcing their completion")', "                    pass",
  "dead worker detected but the loop goes on forever", "MultiprocessingSolver")
V("mp-finished-not-recorded", "break", ["C11"], MP, None, None, "a worker that completed is not recorded as finished: later reported as dead", "solve", within="    def solve(self)",
  edits=[{"old": "                finished[proc_idx] = True\n", "new": ""}])
V("mp-join-in-finally", "break", ["C18"], MP, None, None, "workers joined without timeout in a finally clause: the error path waits for survivors nobody reads from", "MultiprocessingSolver", within="    def optimize(self",
  edits=[{"old": """        while nb > 0:
            proc_idx, solution, statistics = get_message(solutions, processes, finished)
            self.statistics[proc_idx] = statistics
            if solution is None:
                finished[proc_idx] = True
                nb -= 1
            elif best_solution is None or comparison_func(solution[variable_idx], best_solution[variable_idx]):
                best_solution = solution
""", "new": """        try:
            while nb > 0:
                proc_idx, solution, statistics = get_message(solutions, processes, finished)
                self.statistics[proc_idx] = statistics
                if solution is None:
                    finished[proc_idx] = True
                    nb -= 1
                elif best_solution is None or comparison_func(solution[variable_idx], best_solution[variable_idx]):
                    best_solution = solution
        finally:
            for process in processes:
                process.join()
"""}])
V("mp-join-after-loop-neutral", "neutral", ["C18", "C11"], MP, None, None, "workers joined after all markers were received (ordinary tidying up)", within="    def optimize(self",
  edits=[{"old": "                best_solution = solution\n        return best_solution", "new": "                best_solution = solution\n        for process in processes:\n            process.join()\n        return best_solution"}])
V("mp-finished-on-self", "break", ["C18", "C11"], MP, None, None, "completion flags kept on the object and never reset between calls", "MultiprocessingSolver",
  edits=[{"old": "        finished = [False for _ in self.solvers]\n", "new": "", "all": True},
         {"old": "finished)", "new": "self.finished)", "all": True},
         {"old": "                finished[proc_idx] = True", "new": "                self.finished[proc_idx] = True", "all": True},
         {"old": "        self.statistics = [None for _ in solvers]\n", "new": "        self.statistics = [None for _ in solvers]\n        self.finished = [False for _ in solvers]\n"}])
V("mp-worker-marker-in-finally", "break", ["C19", "C11"], BS, None, None, "the worker announces completion from a finally clause, also when its search raised", "solve_and_queue",
  within="    def solve_and_queue(self",
  edits=[{"old": "        while True:\n            solution = solve_one(", "new": "        try:\n          while True:\n            solution = solve_one("},
         {"old": "                break\n        solution_queue.put((processor_idx, None, self.statistics))", "new": "                break\n        finally:\n            solution_queue.put((processor_idx, None, self.statistics))"}])
V("mp-single-solver-shortcut", "break", ["C11", "C03"], MP,
  '        return self.optimize(variable_idx, "minimize_and_queue", operator.lt)', '        if len(self.solvers) == 1:\n            return self.solvers[0].minimize(variable_idx)\n        return self.optimize(variable_idx, "minimize_and_queue", operator.lt)',
  "a single sub-solver is run in the calling process (keeps its state between calls)", "minimize")
V("mp-dead-first-truthiness", "break", ["C18"], MP,
  "            dead = [idx for idx, process in enumerate(processes) if not finished[idx] and not process.is_alive()]\n",
  "            dead = next((idx for idx, process in enumerate(processes) if not finished[idx] and not process.is_alive()), None)\n",
  "first dead worker tested by truthiness: worker 0 is falsy", "MultiprocessingSolver")
V("mp-timeout-none-default", "break", ["C18"], MP,
  edits=[{"old": "def get_message(solutions: Queue, processes: List[Process], finished: List[bool]) ->", "new": "def get_message(solutions: Queue, processes: List[Process], finished: List[bool], timeout: Optional[float] = None) ->"},
         {"old": "solutions.get(timeout=QUEUE_TIMEOUT)", "new": "solutions.get(timeout=timeout)", "all": True},
         {"old": "            proc_idx, solution, statistics = get_message(solutions, processes, finished)\n            self.statistics[proc_idx] = statistics\n            if solution is None:\n                finished[proc_idx] = True\n                nb -= 1\n            else:",
          "new": "            proc_idx, solution, statistics = get_message(solutions, processes, finished, QUEUE_TIMEOUT)\n            self.statistics[proc_idx] = statistics\n            if solution is None:\n                finished[proc_idx] = True\n                nb -= 1\n            else:"}],
  old=None, new=None, what="polling period became a parameter defaulting to None; optimize() does not pass it", expect_fn="MultiprocessingSolver.optimize")
V("mp-neutral-rename", "neutral", ["C11", "C18", "C17"], MP, None, None, "list renamed",
  edits=[{"old": "processes", "new": "procs", "all": True}])

# ---------------------------------------------------------------------------------------------------- problem
V("init-trigger-assign", "break", ["C01", "C08", "C13"], PB,
  "propagator_idx] |= triggers[prop_var_idx]", "propagator_idx] = triggers[prop_var_idx]", "wake-up table overwritten per variable", "init")
V("init-trigger-var-as-dom", "break", ["C13", "C01", "C08"], PB,
  "self.triggers[self.dom_indices_arr[prop_var], propagator_idx] |=", "self.triggers[prop_var, propagator_idx] |=", "variable index used as shared-domain index in the wake-up table", "init")
V("init-offsets-other-vars", "break", ["C13"], PB,
  "self.props_dom_offsets[var_start:var_end] = self.dom_offsets_arr[prop_vars]", "self.props_dom_offsets[var_start:var_end] = self.dom_offsets_arr[: len(prop_vars)]",
  "per-constraint offsets taken from the first variables", "init")
V("init-indices-uncached", "break", ["C13"], PB,
  "self.props_dom_indices[var_start:var_end] = self.dom_indices_arr[prop_vars]", "self.props_dom_indices[var_start:var_end] = prop_vars",
  "per-constraint cache holds variable indices instead of shared-domain indices", "init")
V("init-trigger-vector-or", "break", ["C01", "C08", "C13"], PB,
  "            for prop_var_idx, prop_var in enumerate(prop_vars):\n                self.triggers[self.dom_indices_arr[prop_var], propagator_idx] |= triggers[prop_var_idx]\n",
  "            self.triggers[self.dom_indices_arr[prop_vars], propagator_idx] |= triggers\n", "wake-up table filled by one fancy-indexed |= (repeated index keeps the last write)", "init")
V("addvar-or-default", "break", ["C01", "C13"], PB,
  "        if dom_index is None:\n            dom_index = len(self.shr_domains_lst)  # the index of the extra shared domain\n        if dom_offset is None:\n            dom_offset = 0\n",
  "        dom_index = dom_index or len(self.shr_domains_lst)\n        dom_offset = dom_offset or 0\n", "dom_index=0 treated as 'not given'", "add_variable")
V("addvar-offset-or-zero-neutral", "neutral", ["C01", "C13"], PB,
  "        if dom_offset is None:\n            dom_offset = 0\n", "        dom_offset = dom_offset or 0\n", "`x or 0`: 0 and 'not given' resolve to the same 0")
V("split-inplace-neutral", "neutral", ["C12", "C13", "C11"], PB, "            problem.shr_domains_lst[var_idx] = [min_idx, max_idx]\n",
  "            problem.shr_domains_lst[var_idx][0] = min_idx\n            problem.shr_domains_lst[var_idx][1] = max_idx\n",
  "the part's domain narrowed in place: harmless while every writer of the domain list stores fresh lists")
V("ctor-keeps-list-neutral", "neutral", ["C12", "C13"], PB,
  "            [domain, domain] if isinstance(domain, int) else [domain[0], domain[1]] for domain in shr_domains_lst\n",
  "            [domain, domain] if isinstance(domain, int) else (domain if isinstance(domain, list) else [domain[0], domain[1]]) for domain in shr_domains_lst\n",
  "the constructor keeps a domain that is already a list: harmless while nothing narrows a domain list in place")
V("split-inplace-and-ctor-keeps-list", "break", ["C12", "C13"], PB, None, None,
  "domains written [[lo, hi]] * n are one object; split narrows all of them (0 solutions for n-queens split in 4)", "split",
  edits=[{"old": "            problem.shr_domains_lst[var_idx] = [min_idx, max_idx]\n",
          "new": "            problem.shr_domains_lst[var_idx][0] = min_idx\n            problem.shr_domains_lst[var_idx][1] = max_idx\n"},
         {"old": "            [domain, domain] if isinstance(domain, int) else [domain[0], domain[1]] for domain in shr_domains_lst\n",
          "new": "            [domain, domain] if isinstance(domain, int) else (domain if isinstance(domain, list) else [domain[0], domain[1]]) for domain in shr_domains_lst\n"}])
V("init-neutral-or", "neutral", ["C01", "C08", "C13"], PB,
  "self.triggers[self.dom_indices_arr[prop_var], propagator_idx] |= triggers[prop_var_idx]",
  "self.triggers[self.dom_indices_arr[prop_var], propagator_idx] = self.triggers[self.dom_indices_arr[prop_var], propagator_idx] | triggers[prop_var_idx]", "|= written out")
V("split-no-clamp", "break", ["C12"], PB,
  "        split_nb = max(1, min(split_nb, shr_dom_sz))  # no more parts than values, otherwise some parts would be empty\n", "", "k > size manufactures empty parts", "split")
V("split-shallow-copy", "break", ["C12"], PB, "problem = copy.deepcopy(self)", "problem = copy.copy(self)", "parts share the domain list with the original", "split")
V("split-overlap", "break", ["C12"], PB, "            min_idx = max_idx + 1\n", "            min_idx = max_idx\n", "consecutive parts share a value", "split")
V("split-start-plus1", "break", ["C12"], PB, "        min_idx = shr_dom_min\n", "        min_idx = shr_dom_min + 1\n", "first part skips the minimum", "split")
V("split-writes-self", "break", ["C12"], PB, "            problem.shr_domains_lst[var_idx] = [min_idx, max_idx]", "            self.shr_domains_lst[var_idx] = [min_idx, max_idx]",
  "the original problem is modified", "split")
V("split-fast-path-self", "break", ["C12"], PB,
  "        problems = []\n        min_idx = shr_dom_min\n", "        if split_nb == 1:\n            return [self]\n        problems = []\n        min_idx = shr_dom_min\n",
  "a single part is the problem itself, not a copy", "split")
V("split-remainder-leq", "break", ["C12"], PB, "(0 if split_idx < shr_dom_sz % split_nb else 1)", "(0 if split_idx <= shr_dom_sz % split_nb else 1)",
  "remainder spread over one part too many: the last part ends beyond the domain maximum", "split")
V("split-remainder-shifted", "break", ["C12"], PB, "(0 if split_idx < shr_dom_sz % split_nb else 1)", "(0 if split_idx + 1 < shr_dom_sz % split_nb else 1)",
  "remainder spread over one part too few: the top value is lost", "split")
V("split-neutral-remainder-first", "neutral", ["C12"], PB,
  "            max_idx = min_idx + shr_dom_sz // split_nb - (0 if split_idx < shr_dom_sz % split_nb else 1)\n",
  "            extra = 1 if split_idx < shr_dom_sz % split_nb else 0\n            max_idx = min_idx + shr_dom_sz // split_nb + extra - 1\n", "same sizes written differently")
V("domains-cached-on-problem", "break", ["C12", "C15", "C03"], BS, None, None, "choice points (re)initialised from an array cached on the problem (stale after split / edits)", "reset",
  within="def reset(", edits=[{"old": "        np.array(problem.shr_domains_lst),\n", "new": "        problem.cached_domains if hasattr(problem, 'cached_domains') else np.array(problem.shr_domains_lst),\n"}])
V("split-remainder-other-divisor", "break", ["C12"], PB,
  edits=[{"old": "        split_nb = max(1, min(split_nb, shr_dom_sz))  # no more parts than values, otherwise some parts would be empty\n", "new": "        part_nb = max(1, min(split_nb, shr_dom_sz))\n"},
         {"old": "for split_idx in range(split_nb):", "new": "for split_idx in range(part_nb):"},
         {"old": "shr_dom_sz // split_nb - (0 if split_idx < shr_dom_sz % split_nb else 1)", "new": "shr_dom_sz // part_nb - (0 if split_idx < shr_dom_sz % split_nb else 1)"}],
  old=None, new=None, what="quotient by the clamped number of parts, remainder by the unclamped one", expect_fn="split")
V("split-neutral-temp", "neutral", ["C12"], PB, "            min_idx = max_idx + 1\n", "            nxt = max_idx + 1\n            min_idx = nxt\n", "temp")

# ---------------------------------------------------------------------------------------------------- shaving
V("shave-undo-sign", "break", ["C10"], SH,
  "shr_domains_stack[stacks_top[0] - 1, dom_idx, bound] += 1 if bound == MAX else -1", "shr_domains_stack[stacks_top[0] - 1, dom_idx, bound] += -1 if bound == MAX else 1",
  "undo of a non-refuted probe moves the bound the wrong way", "shave_bound")
V("shave-undo-wrong-level", "break", ["C10"], SH,
  "shr_domains_stack[stacks_top[0] - 1, dom_idx, bound] += 1 if bound == MAX else -1", "shr_domains_stack[stacks_top[0], dom_idx, bound] += 1 if bound == MAX else -1",
  "undo applied to the probe's level", "shave_bound")
V("shave-refuted-on-bound", "break", ["C10"], SH, "        == PROBLEM_INCONSISTENT\n", "        != PROBLEM_UNBOUND\n", "a probe that solves the problem is treated as refuted", "shave_bound")
V("shave-no-ground-neutral", "neutral", ["C10"], SH,
  "    if shr_domains_stack[stacks_top[0], dom_idx, MIN] == shr_domains_stack[stacks_top[0], dom_idx, MAX]:\n        events |= EVENT_MASK_GROUND\n", "",
  "GROUND completion of the probe mask removed: min/max_value already return the GROUND variant, so this is redundant code")
V("shave-no-backtrack", "break", ["C10"], SH, None, None, "probe's choice point is never popped", "shave_bound", within="def shave_bound",
  edits=[{"old": "    backtrack(\n        statistics,\n        not_entailed_propagators_stack,\n        dom_update_stack,\n        stacks_top,\n        triggered_propagators,\n        triggers,\n    )\n", "new": ""}])
V("shave-probe-guard-removed", "break", ["C19", "C16", "C10"], SH,
  "        if stacks_top[0] >= len(shr_domains_stack) - 1:  # no room left for the temporary choice point of a probe\n            break\n", "",
  "probe at the last level", "shaving_consistency_algorithm")
V("shave-counter-dropped", "break", ["C17"], SH, "        statistics[STATS_IDX_ALG_SHAVING_NB] += 1\n", "", "probes not counted", "shaving_consistency_algorithm")
V("shave-counter-swapped", "break", ["C17"], SH, "            statistics[STATS_IDX_ALG_SHAVING_CHANGE_NB] += 1\n        else:", "            statistics[STATS_IDX_ALG_SHAVING_NO_CHANGE_NB] += 1\n        else:",
  "successful probes counted as unsuccessful", "shaving_consistency_algorithm")
V("shave-no-repropagation", "break", ["C10"], SH, "        if has_shaved:\n            status = bound_consistency_algorithm(", "        if has_shaved and start_idx == 0:\n            status = bound_consistency_algorithm(",
  "no propagation after a successful shave beyond the first domain", "shaving_consistency_algorithm")

# --------------------------------------------------------------------------------------------------- capacity
V("solveone-guard-narrow-sum", "break", ["C15", "C16", "C19"], BS,
  "if stacks_top[0] >= len(shr_domains_stack) - 2:", "if stacks_top[0] + 2 >= len(shr_domains_stack):",
  "guard adds to the 8-bit level pointer: wraps in interpreted mode at 254/255", "solve_one")
V("height-limit-512", "break", ["C19", "C16"], BS, "if not 1 <= stack_max_height <= 256:", "if not 1 <= stack_max_height <= 512:", "height beyond the 8-bit pointer accepted", "__init__")
V("height-check-removed", "break", ["C19", "C16"], BS,
  '        if not 1 <= stack_max_height <= 256:\n            raise ValueError("stack_max_height must be between 1 and 256 (the stack pointer is an 8-bit unsigned integer)")\n', "",
  "no check of the height", "__init__")
V("height-neutral-inverted", "neutral", ["C19", "C16"], BS, "if not 1 <= stack_max_height <= 256:", "if stack_max_height < 1 or stack_max_height > 256:", "guard written as a disjunction")
V("flags-stack-wrong-extent", "break", ["C16"], BS,
  "self.not_entailed_propagators_stack = np.empty((stack_max_height, self.problem.propagator_nb), dtype=np.bool)",
  "self.not_entailed_propagators_stack = np.empty((stack_max_height, self.problem.shr_domain_nb), dtype=np.bool)", "flags stack sized by the number of domains", "__init__")

V("init-bounds-cumsum", "break", ["C19"], PB,
  "            self.var_bounds[propagator_idx, RG_END] = self.var_bounds[propagator_idx, RG_START] + len(prop_vars)\n",
  "            self.var_bounds[propagator_idx:, RG_END] = np.cumsum([len(p[0]) for p in self.propagators])[propagator_idx:]\n",
  "cumulative offsets computed in int64 and block-stored into the uint16 table (wraps silently)", "init")
V("init-indices-astype", "break", ["C19"], PB,
  "self.dom_indices_arr = np.array(self.dom_indices_lst, dtype=np.uint16)", "self.dom_indices_arr = np.asarray(self.dom_indices_lst).astype(np.uint16)",
  "indices >= 65536 wrap instead of being refused", "init")
V("init-indices-astype-not-other-props", "neutral", ["C01", "C08", "C13", "C15"], PB,
  "self.dom_indices_arr = np.array(self.dom_indices_lst, dtype=np.uint16)", "self.dom_indices_arr = np.asarray(self.dom_indices_lst).astype(np.uint16)",
  "the wrapping conversion is a capacity matter (C19) only: in range, the arrays are identical")

V("const-ground-collides", "break", ["C01", "C08", "C09"], "nucs/constants.py", "EVENT_MASK_GROUND = 1 << 2", "EVENT_MASK_GROUND = 1 << 1", "GROUND shares the MAX bit", "<module>")
V("const-min-max-ground-partial", "break", ["C01", "C08", "C09"], "nucs/constants.py", "EVENT_MASK_MIN_MAX_GROUND = EVENT_MASK_MIN | EVENT_MASK_MAX | EVENT_MASK_GROUND", "EVENT_MASK_MIN_MAX_GROUND = EVENT_MASK_MIN | EVENT_MASK_GROUND",
  "the three-way split announces MIN|GROUND only", "<module>")
V("const-entailment-collides", "break", ["C07", "C01"], "nucs/constants.py", "PROP_ENTAILMENT = 2", "PROP_ENTAILMENT = 1", "consistent and entailed are the same answer", "<module>")

# ------------------------------------------------------------------------------------------------ global state
V("solver-init-skipped", "break", ["C15"], SV,
  "            problem.init()\n", "            if getattr(problem, 'triggers', None) is None:\n                problem.init()\n",
  "a problem that was initialised for an earlier solver is not re-initialised", "Solver.__init__")
V("backtrack-unsigned-underflow", "break", ["C15"], CP,
  "    if stacks_top[0] == 0:\n        return False\n    stacks_top[0] -= 1\n",
  "    new_top = stacks_top[0] - 1\n    if new_top < 0:\n        return False\n    stacks_top[0] = new_top\n",
  "root test on an unsigned difference: -1 compiled, 255 interpreted", "backtrack")
V("init-triggers-empty", "break", ["C15", "C13"], PB,
  "self.triggers = np.zeros((self.shr_domain_nb, self.propagator_nb), dtype=np.uint8)", "self.triggers = np.empty((self.shr_domain_nb, self.propagator_nb), dtype=np.uint8)",
  "wake-up table accumulated over uninitialised memory", "init")
V("module-cache", "break", ["C15"], BS,
  "def get_function_addresses() -> Tuple[NDArray, NDArray, NDArray, NDArray]:", "_ADDRESS_CACHE: dict = {}\n\n\ndef get_function_addresses() -> Tuple[NDArray, NDArray, NDArray, NDArray]:\n    if 'a' in _ADDRESS_CACHE:\n        return _ADDRESS_CACHE['a']\n    _ADDRESS_CACHE['a'] = (np.empty(0), np.empty(0), np.empty(0), np.empty(0))",
  "module-level cache written by a function (registrations after the first call are invisible)", "get_function_addresses")
V("mutable-default-retained", "break", ["C15"], BS,
  "        self.var_heuristic_params = np.array(var_heuristic_params, dtype=np.int64)", "        var_heuristic_params.append([])\n        self.var_heuristic_params = np.array(var_heuristic_params[:1], dtype=np.int64)",
  "mutable default argument mutated", "__init__")
V("registry-insert-front", "break", ["C15"], PR, "    COMPUTE_DOMAINS_FCTS.append(compute_domains_fct)", "    COMPUTE_DOMAINS_FCTS.insert(0, compute_domains_fct)", "registration shifts earlier indices", "register_propagator")

# ------------------------------------------------------------------------------------------------- triggers
V("affine-leq-triggers-swapped", "break", ["C08", "C01"], P + "affine_leq_propagator.py",
  "        if c < 0:\n            triggers[i] = EVENT_MASK_MAX\n        elif c > 0:\n            triggers[i] = EVENT_MASK_MIN", "        if c < 0:\n            triggers[i] = EVENT_MASK_MIN\n        elif c > 0:\n            triggers[i] = EVENT_MASK_MAX",
  "linear <= watches the bounds it does not depend on", "affine_leq")
V("max-leq-triggers-last", "break", ["C08", "C01"], P + "max_leq_propagator.py", "    triggers[-1] = EVENT_MASK_MAX\n", "    triggers[-1] = EVENT_MASK_MIN\n", "max<= watches MIN of the bound variable", "max_leq")
V("alldifferent-triggers-min", "break", ["C08", "C01"], P + "alldifferent_propagator.py", None, None, "alldifferent watches only lower bounds", "alldifferent",
  edits=[{"old": "EVENT_MASK_MIN_MAX", "new": "EVENT_MASK_MIN", "all": True}])
V("nosubcycle-triggers-min", "break", ["C08", "C01"], P + "no_sub_cycle_propagator.py", None, None, "no_sub_cycle misses instantiations through MAX", "no_sub_cycle",
  edits=[{"old": "EVENT_MASK_GROUND", "new": "EVENT_MASK_MIN", "all": True}])
V("element-iv-triggers-neutral-loop", "neutral", ["C08", "C01"], P + "element_iv_propagator.py",
  "    return np.full(n, dtype=np.uint8, fill_value=EVENT_MASK_MIN_MAX)", "    triggers = np.zeros(n, dtype=np.uint8)\n    for i in range(n):\n        triggers[i] = EVENT_MASK_MIN_MAX\n    return triggers",
  "full mask built with a loop")

V("lex-strict-entail-leq", "break", ["C07", "C01"], P + "lexicographic_leq_propagator.py", None, None,
  "strict sub-case declares entailment with <= (x_q == y_q still possible)", "compute_domains_4", within="def compute_domains_4",
  edits=[{"old": "return PROP_ENTAILMENT if x[q, MAX] < y[q, MIN] else PROP_CONSISTENCY", "new": "return PROP_ENTAILMENT if x[q, MAX] <= y[q, MIN] else PROP_CONSISTENCY"}])
V("lex-nonstrict-entail-lt-neutral", "neutral", ["C07", "C01"], P + "lexicographic_leq_propagator.py", None, None,
  "non-strict sub-case declares entailment only under < (later than necessary, never wrong)", within="def compute_domains_3",
  edits=[{"old": "return PROP_ENTAILMENT if x[q, MAX] <= y[q, MIN] else PROP_CONSISTENCY", "new": "return PROP_ENTAILMENT if x[q, MAX] < y[q, MIN] else PROP_CONSISTENCY"}])

V("mingeq-entail-wrong-bound", "break", ["C07", "C01"], P + "min_geq_propagator.py", "    if y[MAX] <= np.min(x[:, MIN]):", "    if np.min(x[:, MIN]) >= y[MIN]:",
  "min_geq declares entailment against the wrong bound of y ('mirrors' max_leq textually, not semantically)", "min_geq")
V("mingeq-entail-neutral-flipped", "neutral", ["C07", "C01"], P + "min_geq_propagator.py", "    if y[MAX] <= np.min(x[:, MIN]):", "    if np.min(x[:, MIN]) >= y[MAX]:",
  "same guard written the other way round")

# --------------------------------------------------------------------------------------------- index extents
V("element-iv-no-clamp-low", "break", ["C16"], P + "element_iv_propagator.py", "    i[MIN] = max(i[MIN], 0)\n", "", "index variable not clamped to the table from below", "compute_domains_element_iv")
V("element-iv-clamp-len", "break", ["C16"], P + "element_iv_propagator.py", "    i[MAX] = min(i[MAX], len(l) - 1)\n", "    i[MAX] = min(i[MAX], len(l))\n", "index variable clamped one past the table", "compute_domains_element_iv")

V("alldiff-scratch-2n1", "break", ["C16"], P + "alldifferent_propagator.py", "    bounds_nb = 2 * n + 2\n", "    bounds_nb = 2 * n + 1\n",
  "scratch arrays one slot short (second sentinel forgotten)", "alldifferent_propagator")
V("gcc-scratch-2n1", "break", ["C16"], P + "gcc_propagator.py", "    bounds_nb = 2 * n + 2\n", "    bounds_nb = 2 * n + 1\n", "gcc scratch arrays one slot short", "gcc_propagator")
V("gcc-partial-sum-m5", "break", ["C16"], P + "gcc_propagator.py", "partial_sum = np.zeros((2, m + 6), dtype=np.int32)", "partial_sum = np.zeros((2, m + 5), dtype=np.int32)",
  "partial-sum table one column short", "init_partial_sum")
V("alldiff-init-loop-wide", "break", ["C16"], P + "alldifferent_propagator.py", "    for i in range(1, nb + 2):\n        t[i] = h[i] = i - 1", "    for i in range(1, nb + 3):\n        t[i] = h[i] = i - 1",
  "initialisation loop runs one index past the bounds in use", "filter_lower")
V("alldiff-ranks-short", "break", ["C16"], P + "alldifferent_propagator.py", "    ranks = np.zeros((n, 2), dtype=np.uint16)", "    ranks = np.zeros((n - 1, 2), dtype=np.uint16)",
  "rank table one row short", "alldifferent_propagator")
V("alldiff-neutral-temp-size", "neutral", ["C16"], P + "alldifferent_propagator.py", "    bounds_nb = 2 * n + 2\n", "    extra = 2\n    bounds_nb = n + n + extra\n", "size computed differently")
V("gcc-neutral-bigger", "neutral", ["C16"], P + "gcc_propagator.py", "    bounds_nb = 2 * n + 2\n", "    bounds_nb = 2 * n + 4\n", "scratch arrays larger than needed")

V("gcc-no-zero-capacity-precondition", "neutral", ["C04"], P + "gcc_propagator.py",
  """        domains[i, MIN] = skip_non_null_elements_right(u, domains[i, MIN])
        domains[i, MAX] = skip_non_null_elements_left(u, domains[i, MAX])
""", "", "bounds are no longer moved off zero-capacity values before the Hall-interval filtering: weaker pruning only since a67ad7b (0 hangs in 90000 capped runs)")
V("gcc-prepass-no-failure-exit", "break", ["C04"], P + "gcc_propagator.py",
  """        if domains[i, MIN] > domains[i, MAX]:
            return PROP_INCONSISTENCY
    min_sorted_vars""", """    min_sorted_vars""", "bounds moved off zero-capacity values but crossed bounds are ranked (1200 hangs in 15000 capped runs)", "compute_domains_gcc")
V("gcc-lower-max-zero-intervals-not-skipped", "break", ["C04"], P + "gcc_propagator.py",
  "        t[i] = i + 1 if d[i] == 0 else i - 1\n", "        t[i] = i - 1\n", "upper-capacity pass: intervals without capacity start as ordinary intervals (never merged; gcc hangs)", "filter_lower_max")
V("gcc-upper-max-zero-intervals-not-skipped", "break", ["C04"], P + "gcc_propagator.py",
  "        t[i] = i - 1 if d[i] == 0 else i + 1\n", "        t[i] = i + 1\n", "mirror pass: intervals without capacity start as ordinary intervals", "filter_upper_max")
V("gcc-lower-min-zero-intervals-not-skipped", "break", ["C04"], P + "gcc_propagator.py", None, None, "lower-capacity pass: the pointer initialisation no longer tests the capacity", "filter_lower_min",
  within="def filter_lower_min", edits=[{"old": "        if c[i] == 0:\n            tl[i] = w\n        else:\n            tl[w] = i\n            w = i\n", "new": "        tl[w] = i\n        w = i\n"},
                                        {"old": "        if c[i] == 0:  # if the capacity between both bounds is zero, we have an unstable set between these two bounds\n            sets[i - 1] = w\n        else:\n            sets[w] = i - 1\n            w = i - 1\n", "new": "        sets[w] = i - 1\n        w = i - 1\n"}])
V("gcc-zero-intervals-neutral-if-form", "neutral", ["C04", "C16"], P + "gcc_propagator.py",
  "        t[i] = i + 1 if d[i] == 0 else i - 1\n", "        if d[i] < 1:\n            t[i] = i + 1\n        else:\n            t[i] = i - 1\n", "same initialisation as an if statement with `< 1`")
V("gcc-zero-intervals-neutral-local", "neutral", ["C04", "C16"], P + "gcc_propagator.py",
  "        d[i] = get_sum(u, bounds[i], bounds[i + 1] - 1)\n        # an interval without capacity is full from the start: it is skipped like an interval that has been filled\n        t[i] = i - 1 if d[i] == 0 else i + 1\n",
  "        cap = get_sum(u, bounds[i], bounds[i + 1] - 1)\n        d[i] = cap\n        t[i] = i + 1 if cap != 0 else i - 1\n", "capacity held in a local, test inverted")
V("gcc-precondition-neutral-reorder", "neutral", ["C04", "C16"], P + "gcc_propagator.py",
  """        domains[i, MIN] = skip_non_null_elements_right(u, domains[i, MIN])
        domains[i, MAX] = skip_non_null_elements_left(u, domains[i, MAX])
""", """        domains[i, MAX] = skip_non_null_elements_left(u, domains[i, MAX])
        domains[i, MIN] = skip_non_null_elements_right(u, domains[i, MIN])
""", "the two independent moves reordered")

V("lex-guard-after-access", "break", ["C16"], P + "lexicographic_leq_propagator.py", None, None, "end-of-vector test evaluated after the access it guards (reads x[n])", "compute_domains_3",
  within="def compute_domains_3", edits=[{"old": "    if i == n or x[i, MAX] < y[i, MIN]:", "new": "    if x[i, MAX] < y[i, MIN] or i == n:"}])
V("lex-scan-leq-n", "break", ["C16"], P + "lexicographic_leq_propagator.py", None, None, "scan runs while i <= n", "compute_domains_4",
  within="def compute_domains_4", edits=[{"old": "    while i < n and x[i, MIN] == y[i, MAX]:", "new": "    while i <= n and x[i, MIN] == y[i, MAX]:"}])
V("lex-neutral-guard-swapped-operands", "neutral", ["C16", "C07", "C01"], P + "lexicographic_leq_propagator.py", None, None, "n == i instead of i == n",
  within="def compute_domains_3", edits=[{"old": "    if i == n or x[i, MAX] < y[i, MIN]:", "new": "    if n == i or y[i, MIN] > x[i, MAX]:"}])

V("maxregret-table-transposed", "break", ["C16"], H + "max_regret_var_heuristic.py", "params[dom_idx][value]", "params[value][dom_idx]",
  "cost table read transposed", "max_regret_var_heuristic")

# --------------------------------------------------------------------------------------------- loop variants
V("lexleq-loop-no-step", "break", ["C04"], P + "lexicographic_leq_propagator.py", None, None, "scan loop loses its step", "lexicographic",
  edits=[{"old": "        i += 1\n", "new": "        pass\n", "occurrence": 0}])

# ------------------------------------------------------------------------------------- entailment guards of the sibling families
V("element-iv-entailed-on-single-value", "break", ["C07"], P + "element_iv_propagator.py",
  "    if i[MIN] == i[MAX]:\n        return PROP_ENTAILMENT", "    if i[MIN] == i[MAX] or v_min == v_max:\n        return PROP_ENTAILMENT",
  "'entailed' as soon as one supported value is left although the index is not fixed", "compute_domains_element_iv")
V("element-lic-entailed-early", "break", ["C07"], P + "element_lic_propagator.py",
  "    if i[MIN] == i[MAX]:\n        l[i[MIN]] = c\n        return PROP_ENTAILMENT", "    if i[MAX] - i[MIN] <= 1:\n        l[i[MIN]] = c\n        return PROP_ENTAILMENT",
  "'entailed' with two candidate indices left", "compute_domains_element_lic")
V("relation-entailed-on-full-box", "break", ["C07"], P + "relation_propagator.py",
  "    if len(tuples) == 1:\n", "    if len(tuples) == (domains[0, MAX] - domains[0, MIN] + 1) * (domains[1, MAX] - domains[1, MIN] + 1):\n",
  "'entailed' when the number of rows equals the size of the box (rows may repeat)", "compute_domains_relation")
V("count-eq-entailed-early", "break", ["C07"], P + "count_eq_propagator.py",
  "    if count_min == count_max:\n        return PROP_ENTAILMENT", "    if count_min == count_max or counter[MIN] == counter[MAX]:\n        return PROP_ENTAILMENT",
  "'entailed' as soon as the counter is fixed although some variables are undecided", "compute_domains_count_eq")
V("exactly-eq-entailed-early", "break", ["C07"], P + "exactly_eq_propagator.py",
  "    if count_min == 0 and count_max == 0:\n        return PROP_ENTAILMENT", "    if count_min == 0:\n        return PROP_ENTAILMENT",
  "'entailed' when the required number is reached although other variables may still take the value", "compute_domains_exactly_eq")
V("element-iv-guard-rewritten-neutral", "neutral", ["C07", "C01"], P + "element_iv_propagator.py",
  "    if i[MIN] == i[MAX]:\n        return PROP_ENTAILMENT", "    if not i[MIN] < i[MAX]:\n        return PROP_ENTAILMENT",
  "same guard written as `not MIN < MAX` (MAX >= MIN is established by the failure test above)")
V("relation-guard-rewritten-neutral", "neutral", ["C07", "C01"], P + "relation_propagator.py",
  "    if len(tuples) == 1:\n", "    if len(tuples) < 2:\n", "same guard written as `< 2`")
V("count-eq-guard-rewritten-neutral", "neutral", ["C07", "C01"], P + "count_eq_propagator.py",
  "    if count_min == count_max:\n        return PROP_ENTAILMENT", "    if count_max - count_min == 0:\n        return PROP_ENTAILMENT", "same guard written as a difference")
V("element-liv-locals-renamed-neutral", "neutral", ["C07"], P + "element_liv_propagator.py", None, None, "index and value rows bound to other names",
  within="def compute_domains_element_liv", edits=[{"old": "    i = domains[-2]\n", "new": "    idx_var = domains[-2]\n    i = idx_var\n"}])
V("affine-leq-vectorised-int32", "break", ["C01", "C07"], P + "affine_leq_propagator.py",
  """    domain_sum_min = domain_sum_max = parameters[-1]
    for i, c in enumerate(parameters[:-1]):
        if c > 0:
            domain_sum_min -= c * domains[i, MAX]
            domain_sum_max -= c * domains[i, MIN]
        else:
            domain_sum_min -= c * domains[i, MIN]
            domain_sum_max -= c * domains[i, MAX]
    if domain_sum_min >= 0:""", """    coefficients = parameters[:-1]
    terms_at_min = coefficients * domains[:, MIN]
    terms_at_max = coefficients * domains[:, MAX]
    domain_sum_min = parameters[-1] - np.sum(np.maximum(terms_at_min, terms_at_max))
    domain_sum_max = parameters[-1] - np.sum(np.minimum(terms_at_min, terms_at_max))
    if domain_sum_min >= 0:""", "bound sums vectorised on 32-bit arrays: products wrap at 2**31", "compute_domains_affine_leq", expect_rule="R-VECTOR-WIDTH")
V("max-leq-locals-renamed-neutral", "neutral", ["C07", "C01"], P + "max_leq_propagator.py", None, None, "locals of one of the two mirror siblings renamed",
  within="def compute_domains_max_leq", edits=[{"old": "    x = domains[:-1]\n    y = domains[-1]\n    if np.max(x[:, MAX]) <= y[MIN]:", "new": "    xs = domains[:-1]\n    bound = domains[-1]\n    x = xs\n    y = bound\n    if np.max(xs[:, MAX]) <= bound[MIN]:"}])
V("mp-stats-aggregators-renamed-neutral", "neutral", ["C17", "C11"], "nucs/solvers/multiprocessing_solver.py", None, None, "the two aggregators renamed",
  edits=[{"old": "sum_stats", "new": "total_of", "all": True}, {"old": "max_stats", "new": "largest_of", "all": True}])
V("mp-stats-depth-summed-table-driven", "break", ["C17", "C11"], "nucs/solvers/multiprocessing_solver.py", None, None,
  "get_statistics rewritten as a comprehension over the label table: the depth is summed over the workers", "get_statistics",
  edits=[{"old": "            STATS_LBL_SOLVER_CHOICE_DEPTH: max_stats(self.statistics, STATS_IDX_SOLVER_CHOICE_DEPTH),\n", "new": "            STATS_LBL_SOLVER_CHOICE_DEPTH: sum_stats(self.statistics, STATS_IDX_SOLVER_CHOICE_DEPTH),\n"}])
V("init-sort-once-stale-flag", "break", ["C15"], PB, None, None, "init() sorts only once; add_propagator does not invalidate the flag", "add_propagator",
  edits=[{"old": "        self.propagator_nb = 0\n", "new": "        self.propagator_nb = 0\n        self.propagators_sorted = False\n", "occurrence": 0},
         {"old": "        self.propagators.sort(key=lambda prop: GET_COMPLEXITY_FCTS[prop[1]](len(prop[0]), prop[2]))\n",
          "new": "        if not self.propagators_sorted:\n            self.propagators.sort(key=lambda prop: GET_COMPLEXITY_FCTS[prop[1]](len(prop[0]), prop[2]))\n            self.propagators_sorted = True\n"}])
V("init-sort-once-flag-invalidated-neutral", "neutral", ["C15", "C13"], PB, None, None, "init() sorts only once and every mutator of the constraint list invalidates the flag",
  edits=[{"old": "        self.propagator_nb = 0\n", "new": "        self.propagator_nb = 0\n        self.propagators_sorted = False\n", "occurrence": 0},
         {"old": "        self.propagators.sort(key=lambda prop: GET_COMPLEXITY_FCTS[prop[1]](len(prop[0]), prop[2]))\n",
          "new": "        if not self.propagators_sorted:\n            self.propagators.sort(key=lambda prop: GET_COMPLEXITY_FCTS[prop[1]](len(prop[0]), prop[2]))\n            self.propagators_sorted = True\n"},
         {"old": "        self.propagators.append(propagator)\n", "new": "        self.propagators.append(propagator)\n        self.propagators_sorted = False\n"},
         {"old": "        self.propagators.extend(propagators)\n", "new": "        self.propagators.extend(propagators)\n        self.propagators_sorted = False\n"}])
V("element-lic-fast-path-before-clamp", "break", ["C16"], P + "element_lic_propagator.py",
  "    # i could be updated only once\n", "    if i[MIN] == i[MAX]:\n        l_i = l[i[MIN]]\n        if c < l_i[MIN] or c > l_i[MAX]:\n            return PROP_INCONSISTENCY\n        l_i[:] = c\n        return PROP_ENTAILMENT\n    # i could be updated only once\n",
  "fast path for an instantiated index placed above the clamp of the index", "compute_domains_element_lic")
V("element-lic-fast-path-after-clamp-neutral", "neutral", ["C16", "C07", "C01"], P + "element_lic_propagator.py",
  "    indices: List[int] = []\n", "    if i[MIN] == i[MAX]:\n        l_i = l[i[MIN]]\n        if c < l_i[MIN] or c > l_i[MAX]:\n            return PROP_INCONSISTENCY\n        l_i[:] = c\n        return PROP_ENTAILMENT\n    indices: List[int] = []\n",
  "the same fast path placed after the clamp")
V("max-eq-candidates-against-outer-bound", "break", ["C02"], P + "max_eq_propagator.py", None, None,
  "candidates counted against y[MAX] while the sole candidate is forced to y[MIN] (the pinned tree's defect: solutions removed)", "compute_domains_max_eq",
  edits=[{"old": "        if x[i, MAX] >= y[MIN]:", "new": "        if x[i, MAX] >= y[MAX]:"}])
V("min-eq-candidates-against-outer-bound", "break", ["C02"], P + "min_eq_propagator.py", None, None,
  "mirror slip in min_eq", "compute_domains_min_eq", edits=[{"old": "        if x[i, MIN] <= y[MAX]:", "new": "        if x[i, MIN] <= y[MIN]:"}])
V("max-eq-bound-in-local-neutral", "neutral", ["C02", "C01", "C08"], P + "max_eq_propagator.py", None, None, "the forced bound held in a local, forced with max()",
  edits=[{"old": "    candidates_nb = 0\n", "new": "    lowest = y[MIN]\n    candidates_nb = 0\n"},
         {"old": "        if x[i, MAX] >= y[MIN]:", "new": "        if x[i, MAX] >= lowest:"},
         {"old": "        x[candidate_idx, MIN] = y[MIN]\n", "new": "        x[candidate_idx, MIN] = max(x[candidate_idx, MIN], lowest)\n"}])
V("shaving-cursor-positional-slice", "break", ["C10", "C04"], "nucs/solvers/shaving_consistency_algorithm.py",
  "decision_domains[decision_domains >= start_idx]", "decision_domains[start_idx:]", "the scan is given a positional slice: with unsorted decision domains the cursor goes backwards",
  "shaving_consistency_algorithm")
V("shaving-cursor-filter-rewritten-neutral", "neutral", ["C10", "C04", "C02"], "nucs/solvers/shaving_consistency_algorithm.py",
  "decision_domains[decision_domains >= start_idx]", "decision_domains[decision_domains > start_idx - 1]", "the same value filter written with >")
V("minimize-logs-result-unguarded", "break", ["C03"], BS, "        return self.optimize(variable_idx, decrease_max)\n",
  "        solution = self.optimize(variable_idx, decrease_max)\n        logger.info(f\"The minimum is {solution[variable_idx]}\")\n        return solution\n",
  "the optimum is logged without a None test: TypeError on an infeasible problem", "minimize")
V("minimize-logs-result-guarded-neutral", "neutral", ["C03", "C11"], BS, "        return self.optimize(variable_idx, decrease_max)\n",
  "        solution = self.optimize(variable_idx, decrease_max)\n        if solution is not None:\n            logger.info(f\"The minimum is {solution[variable_idx]}\")\n        return solution\n",
  "the optimum is logged under a None test")
V("getsolution-offset-by-domain-index", "break", ["C01", "C13", "C16"], "nucs/solvers/solver.py",
  "    return shr_domains_stack[stacks_top[0], dom_indices_arr, MIN] + dom_offsets_arr\n",
  "    return shr_domains_stack[stacks_top[0], dom_indices_arr, MIN] + dom_offsets_arr[dom_indices_arr]\n", "solution offsets looked up by shared-domain index", "get_solution")
V("decrease-max-index-in-local-neutral", "neutral", ["C01", "C03", "C13", "C16"], "nucs/solvers/solver.py", None, None, "the shared-domain index held in a local",
  within="def decrease_max", edits=[{"old": "    shr_domains_stack[stacks_top[0], dom_indices_arr[var_idx], MAX] = value - 1 - dom_offsets_arr[var_idx]\n",
                                     "new": "    shr_dom = dom_indices_arr[var_idx]\n    shr_domains_stack[stacks_top[0], shr_dom, MAX] = value - 1 - dom_offsets_arr[var_idx]\n"}])
V("bc-writeback-skips-instantiated", "break", ["C01", "C02", "C08", "C13"], BC,
  "            events = 0\n            shr_domain_min = prop_domains[var_idx, MIN]",
  "            if shr_domains_stack[top, shr_domain_idx, MIN] == shr_domains_stack[top, shr_domain_idx, MAX]:\n                continue\n            events = 0\n            shr_domain_min = prop_domains[var_idx, MIN]",
  "the write-back skips instantiated shared domains: an emptying second view of the same domain is never noticed", "bound_consistency_algorithm")
V("bc-writeback-skips-unchanged-neutral", "neutral", ["C01", "C02", "C08", "C13", "C04"], BC,
  "            events = 0\n            shr_domain_min = prop_domains[var_idx, MIN]",
  "            if shr_domains_stack[top, shr_domain_idx, MIN] >= prop_domains[var_idx, MIN] - prop_offsets[var_idx, 0] and shr_domains_stack[top, shr_domain_idx, MAX] <= prop_domains[var_idx, MAX] - prop_offsets[var_idx, 0]:\n                continue\n            events = 0\n            shr_domain_min = prop_domains[var_idx, MIN]",
  "the write-back skips a position whose view brings nothing (both bounds compared)")

# ------------------------------------------------------------------------------------- round-3 rules
V("mp-liveness-filter-hoisted-as-generator", "break", ["C18"], "nucs/solvers/multiprocessing_solver.py",
  "    while True:\n        try:\n            return solutions.get(timeout=QUEUE_TIMEOUT)\n        except Empty:\n            dead = [idx for idx, process in enumerate(processes) if not finished[idx] and not process.is_alive()]",
  "    expected = (idx for idx, is_finished in enumerate(finished) if not is_finished)\n    while True:\n        try:\n            return solutions.get(timeout=QUEUE_TIMEOUT)\n        except Empty:\n            dead = [idx for idx in expected if not processes[idx].is_alive()]",
  "the 'not yet finished' filter hoisted out of the waiting loop as a generator: exhausted by the first liveness check", "get_message")
V("mp-liveness-filter-hoisted-as-list-neutral", "neutral", ["C18", "C11", "C12"], "nucs/solvers/multiprocessing_solver.py",
  "    while True:\n        try:\n            return solutions.get(timeout=QUEUE_TIMEOUT)\n        except Empty:\n            dead = [idx for idx, process in enumerate(processes) if not finished[idx] and not process.is_alive()]",
  "    expected = [idx for idx, is_finished in enumerate(finished) if not is_finished]\n    while True:\n        try:\n            return solutions.get(timeout=QUEUE_TIMEOUT)\n        except Empty:\n            dead = [idx for idx in expected if not processes[idx].is_alive()]",
  "the same filter hoisted as a list (the flags do not change during one wait)")
V("mp-sigchld-ignored", "break", ["C18"], "nucs/solvers/multiprocessing_solver.py", "        logger.debug(\"MultiprocessingSolver initialized\")\n",
  "        import signal\n        signal.signal(signal.SIGCHLD, signal.SIG_IGN)\n        logger.debug(\"MultiprocessingSolver initialized\")\n",
  "SIGCHLD ignored: is_alive() answers True for a dead worker", "__init__")
V("problem-getstate-strips-original", "break", ["C12"], PB, "    def split(self, split_nb: int, var_idx: int) -> List[Self]:\n",
  "    def __getstate__(self):\n        state = self.__dict__\n        state.pop(\"triggers\", None)\n        return state\n\n    def split(self, split_nb: int, var_idx: int) -> List[Self]:\n",
  "a pickle hook that edits the object's own dictionary: deepcopy in split strips the original", "__getstate__")
V("problem-getstate-on-copy-neutral", "neutral", ["C12", "C13"], PB, "    def split(self, split_nb: int, var_idx: int) -> List[Self]:\n",
  "    def __getstate__(self):\n        state = dict(self.__dict__)\n        state.pop(\"triggers\", None)\n        return state\n\n    def split(self, split_nb: int, var_idx: int) -> List[Self]:\n",
  "the same hook working on a copy of the dictionary")
V("affine-geq-accumulator-wrong-bound", "break", ["C07", "C01"], P + "affine_geq_propagator.py", None, None,
  "copy/paste of the bound in the negative-coefficient branch of the interval sum", "compute_domains_affine_geq",
  within="def compute_domains_affine_geq", edits=[{"old": "            domain_sum_max -= c * domains[i, MAX]\n", "new": "            domain_sum_max -= c * domains[i, MIN]\n", "occurrence": 0}])
V("element-liv-entailed-with-free-value", "break", ["C07"], P + "element_liv_propagator.py",
  "        if v[MIN] == v[MAX]:\n            return PROP_ENTAILMENT\n", "        return PROP_ENTAILMENT\n",
  "'entailed' as soon as the index is fixed although l[i] and v still share several values", "compute_domains_element_liv")
V("stack-height-validated-by-assert", "break", ["C19", "C16"], BS, None, None, "the stack height is validated by an assert (stripped under python -O)", "__init__",
  edits=[{"old": "        if not 1 <= stack_max_height <= 256:\n            raise ValueError(", "new": "        assert 1 <= stack_max_height <= 256, (\n            "}])
V("update-stack-8-bit", "break", ["C09", "C19"], BS, "        self.dom_update_stack = np.empty((stack_max_height, 2), dtype=np.uint16)\n",
  "        self.dom_update_stack = np.empty((stack_max_height, 2), dtype=np.uint8)\n", "replay records narrower than the shared-domain index table", "dom_update_stack")
V("minvalue-no-push-on-instantiated", "break", ["C04"], H + "min_value_dom_heuristic.py", None, None, "nothing is pushed for an instantiated domain", "min_value_dom_heuristic",
  within="def min_value_dom_heuristic", edits=[{"old": "    cp_put(", "new": "    if shr_domains_stack[stacks_top[0], dom_idx, MIN] == shr_domains_stack[stacks_top[0], dom_idx, MAX]:\n        return 0\n    cp_put("}])
V("scc-watches-instantiation-only", "break", ["C08", "C01"], P + "propagators.py",
  "ALG_SCC = register_propagator(get_triggers_scc, get_complexity_scc, compute_domains_scc)", "ALG_SCC = register_propagator(get_triggers_no_sub_cycle, get_complexity_scc, compute_domains_scc)",
  "scc registered with its neighbour's trigger function", "get_triggers_no_sub_cycle")
V("init-reads-posting-order-list", "break", ["C13"], PB, None, None, "a per-constraint list kept since posting time is read by position after the sort", "init",
  edits=[{"old": "        self.propagator_nb = 0\n", "new": "        self.propagator_nb = 0\n        self.prop_arity = []\n", "occurrence": 0},
         {"old": "        self.propagators.append(propagator)\n", "new": "        self.propagators.append(propagator)\n        self.prop_arity.append(len(propagator[0]))\n"},
         {"old": "            self.var_bounds[propagator_idx, RG_END] = self.var_bounds[propagator_idx, RG_START] + len(prop_vars)\n",
          "new": "            self.var_bounds[propagator_idx, RG_END] = self.var_bounds[propagator_idx, RG_START] + self.prop_arity[propagator_idx]\n"}])
V("addvar-counts-variables", "break", ["C13"], PB, "        self.shr_domain_nb = len(self.shr_domains_lst)\n        return insertion_idx\n\n    def add_variables(",
  "        self.shr_domain_nb = len(self.dom_indices_lst)\n        return insertion_idx\n\n    def add_variables(",
  "the number of shared domains set to the number of variables (the pinned tree's defect)", "add_variable")
V("addvars-return-domain-position", "break", ["C13"], PB, "        insertion_idx = len(self.dom_indices_lst)  # the index of the first extra variable\n",
  "        insertion_idx = len(self.shr_domains_lst)\n", "add_variables returns a position among the shared domains (the pinned tree's defect)", "add_variables")
V("shaving-counters-in-locals-flushed-everywhere-neutral", "neutral", ["C17", "C10", "C04"], "nucs/solvers/shaving_consistency_algorithm.py", None, None,
  "the three shaving counters accumulated in locals and written back on every exit (the no-change count derived as a difference)",
  edits=[{"old": "    start_idx = 0\n    while start_idx < shr_domains_nb:\n", "new": "    start_idx = 0\n    shaving_nb = 0\n    shaving_change_nb = 0\n    while start_idx < shr_domains_nb:\n"},
         {"old": "        statistics[STATS_IDX_ALG_SHAVING_NB] += 1\n", "new": "        shaving_nb += 1\n"},
         {"old": "            statistics[STATS_IDX_ALG_SHAVING_CHANGE_NB] += 1\n", "new": "            shaving_change_nb += 1\n"},
         {"old": "            statistics[STATS_IDX_ALG_SHAVING_NO_CHANGE_NB] += 1\n", "new": "            pass\n"},
         {"old": "    return PROBLEM_UNBOUND\n", "new": "    statistics[STATS_IDX_ALG_SHAVING_NB] += shaving_nb\n    statistics[STATS_IDX_ALG_SHAVING_CHANGE_NB] += shaving_change_nb\n    statistics[STATS_IDX_ALG_SHAVING_NO_CHANGE_NB] += shaving_nb - shaving_change_nb\n    return PROBLEM_UNBOUND\n", "within": "def shaving_consistency_algorithm"},
         {"old": "            if status != PROBLEM_UNBOUND:\n                return status\n", "new": "            if status != PROBLEM_UNBOUND:\n                statistics[STATS_IDX_ALG_SHAVING_NB] += shaving_nb\n                statistics[STATS_IDX_ALG_SHAVING_CHANGE_NB] += shaving_change_nb\n                statistics[STATS_IDX_ALG_SHAVING_NO_CHANGE_NB] += shaving_nb - shaving_change_nb\n                return status\n", "within": "def shaving_consistency_algorithm"}])
V("shaving-counters-in-locals-early-return-unflushed", "break", ["C17"], "nucs/solvers/shaving_consistency_algorithm.py", None, None,
  "the same refactoring, but the early return inside the loop does not write the counts back", "shaving_consistency_algorithm",
  edits=[{"old": "    start_idx = 0\n    while start_idx < shr_domains_nb:\n", "new": "    start_idx = 0\n    shaving_nb = 0\n    shaving_change_nb = 0\n    while start_idx < shr_domains_nb:\n"},
         {"old": "        statistics[STATS_IDX_ALG_SHAVING_NB] += 1\n", "new": "        shaving_nb += 1\n"},
         {"old": "            statistics[STATS_IDX_ALG_SHAVING_CHANGE_NB] += 1\n", "new": "            shaving_change_nb += 1\n"},
         {"old": "            statistics[STATS_IDX_ALG_SHAVING_NO_CHANGE_NB] += 1\n", "new": "            pass\n"},
         {"old": "    return PROBLEM_UNBOUND\n", "new": "    statistics[STATS_IDX_ALG_SHAVING_NB] += shaving_nb\n    statistics[STATS_IDX_ALG_SHAVING_CHANGE_NB] += shaving_change_nb\n    statistics[STATS_IDX_ALG_SHAVING_NO_CHANGE_NB] += shaving_nb - shaving_change_nb\n    return PROBLEM_UNBOUND\n", "within": "def shaving_consistency_algorithm"}])
V("shaving-counters-in-locals-wrong-branch", "break", ["C17"], "nucs/solvers/shaving_consistency_algorithm.py", None, None,
  "the same refactoring with the success counter incremented on the failure branch", "shaving_consistency_algorithm",
  edits=[{"old": "    start_idx = 0\n    while start_idx < shr_domains_nb:\n", "new": "    start_idx = 0\n    shaving_nb = 0\n    shaving_change_nb = 0\n    while start_idx < shr_domains_nb:\n"},
         {"old": "        statistics[STATS_IDX_ALG_SHAVING_NB] += 1\n", "new": "        shaving_nb += 1\n"},
         {"old": "            statistics[STATS_IDX_ALG_SHAVING_CHANGE_NB] += 1\n", "new": "            pass\n"},
         {"old": "            statistics[STATS_IDX_ALG_SHAVING_NO_CHANGE_NB] += 1\n", "new": "            shaving_change_nb += 1\n"},
         {"old": "    return PROBLEM_UNBOUND\n", "new": "    statistics[STATS_IDX_ALG_SHAVING_NB] += shaving_nb\n    statistics[STATS_IDX_ALG_SHAVING_CHANGE_NB] += shaving_change_nb\n    statistics[STATS_IDX_ALG_SHAVING_NO_CHANGE_NB] += shaving_nb - shaving_change_nb\n    return PROBLEM_UNBOUND\n", "within": "def shaving_consistency_algorithm"},
         {"old": "            if status != PROBLEM_UNBOUND:\n                return status\n", "new": "            if status != PROBLEM_UNBOUND:\n                statistics[STATS_IDX_ALG_SHAVING_NB] += shaving_nb\n                statistics[STATS_IDX_ALG_SHAVING_CHANGE_NB] += shaving_change_nb\n                statistics[STATS_IDX_ALG_SHAVING_NO_CHANGE_NB] += shaving_nb - shaving_change_nb\n                return status\n", "within": "def shaving_consistency_algorithm"}])
V("bc-fast-path-before-pass-counter", "break", ["C17"], BC, "    statistics[STATS_IDX_ALG_BC_NB] += 1\n",
  "    if not np.any(triggered_propagators):\n        return PROBLEM_BOUND if is_solved(shr_domains_stack, stacks_top) else PROBLEM_UNBOUND\n    statistics[STATS_IDX_ALG_BC_NB] += 1\n",
  "a pass that finds the queue empty answers before it is counted", "bound_consistency_algorithm")
V("bc-fast-path-after-pass-counter-neutral", "neutral", ["C17", "C01", "C08", "C04"], BC, "    statistics[STATS_IDX_ALG_BC_NB] += 1\n",
  "    statistics[STATS_IDX_ALG_BC_NB] += 1\n    if not np.any(triggered_propagators):\n        return PROBLEM_BOUND if is_solved(shr_domains_stack, stacks_top) else PROBLEM_UNBOUND\n",
  "the same fast path placed after the counter")
V("init-unstable-argsort", "break", ["C15"], PB, "        self.propagators.sort(key=lambda prop: GET_COMPLEXITY_FCTS[prop[1]](len(prop[0]), prop[2]))\n",
  "        order = np.argsort(np.array([GET_COMPLEXITY_FCTS[prop[1]](len(prop[0]), prop[2]) for prop in self.propagators]))\n        self.propagators = [self.propagators[k] for k in order]\n",
  "the constraints re-ordered with an unstable argsort", "init")
V("init-stable-argsort-neutral", "neutral", ["C15", "C13"], PB, "        self.propagators.sort(key=lambda prop: GET_COMPLEXITY_FCTS[prop[1]](len(prop[0]), prop[2]))\n",
  "        order = np.argsort(np.array([GET_COMPLEXITY_FCTS[prop[1]](len(prop[0]), prop[2]) for prop in self.propagators]), kind=\"stable\")\n        self.propagators = [self.propagators[k] for k in order]\n",
  "the same with kind='stable'")
V("element-liv-stores-before-no-candidate-exit", "break", ["C15"], P + "element_liv_propagator.py",
  "    if i[MAX] < i[MIN]:\n        return PROP_INCONSISTENCY\n    v[MIN] = max(v[MIN], v_min)\n    v[MAX] = min(v[MAX], v_max)\n",
  "    v[MIN] = max(v[MIN], v_min)\n    v[MAX] = min(v[MAX], v_max)\n    if i[MAX] < i[MIN] or v[MAX] < v[MIN]:\n        return PROP_INCONSISTENCY\n",
  "the running extrema stored before the 'no candidate' exit: the 64-bit sentinel reaches a 32-bit cell", "compute_domains_element_liv")
V("mincost-sentinel-outside-domain", "break", ["C04", "C09"], H + "min_cost_dom_heuristic.py",
  "    best_value = shr_domain[MIN]  # branched on when no value of the domain has a positive cost\n", "    best_value = -1\n",
  "the scan starts from -1: with no positive cost in the domain -1 is branched on and the search never ends (the pinned tree's defect)", "min_cost_dom_heuristic")
V("given-offsets-dropped", "break", ["C13"], PB,
  "        if dom_offsets_lst is None:\n            dom_offsets_lst = [0] * n\n",
  "        if dom_indices_lst is None or dom_offsets_lst is None:\n            dom_offsets_lst = [0] * n\n",
  "offsets given without indices are replaced by zeros: the model written with offsets differs from its translated twin", "Problem.__init__")
V("given-offsets-ifexp", "neutral", ["C13", "C01", "C02", "C03"], PB,
  "        if dom_offsets_lst is None:\n            dom_offsets_lst = [0] * n\n",
  "        dom_offsets_lst = [0] * n if dom_offsets_lst is None else dom_offsets_lst\n",
  "the default as a conditional expression")
V("optimize-bound-left-in-model", "break", ["C13", "C15", "C03"], BS,
  "            logger.info(f\"Found a local optimum: {solution[variable_idx]}\")\n            best_solution = solution\n",
  "            logger.info(f\"Found a local optimum: {solution[variable_idx]}\")\n            best_solution = solution\n"
  "            objective = self.problem.shr_domains_lst[self.problem.dom_indices_lst[variable_idx]]\n"
  "            objective[1] = int(solution[variable_idx]) - self.problem.dom_offsets_lst[variable_idx]\n",
  "the incumbent is recorded in the model's own domain list: after minimize the problem object is a different model", "BacktrackSolver.optimize")
V("optimize-reads-model-through-local", "neutral", ["C13", "C15", "C03"], BS,
  "            logger.info(f\"Found a local optimum: {solution[variable_idx]}\")\n            best_solution = solution\n",
  "            logger.info(f\"Found a local optimum: {solution[variable_idx]}\")\n            best_solution = solution\n"
  "            objective = self.problem.shr_domains_lst[self.problem.dom_indices_lst[variable_idx]]\n"
  "            logger.debug(f\"objective domain {objective[0]}..{objective[1]}\")\n",
  "the model read through a local: no store")
V("decision-default-referenced-only", "break", ["C02"], BS,
  "        decision_domains = list(range(problem.shr_domain_nb)) if decision_domains is None else decision_domains\n",
  "        decision_domains = sorted(set(problem.dom_indices_lst)) if decision_domains is None else decision_domains\n",
  "by default only the shared domains some variable refers to are branched on: the one a view leaves behind is never instantiated, is_solved never holds", "BacktrackSolver.__init__")
V("decision-default-if-form", "neutral", ["C02"], BS,
  "        decision_domains = list(range(problem.shr_domain_nb)) if decision_domains is None else decision_domains\n",
  "        if decision_domains is None:\n            decision_domains = [d for d in range(len(problem.shr_domains_lst))]\n",
  "the same default written as an if statement and a comprehension")
V("latin-given-truthiness", "break", ["C13"], "nucs/problems/latin_square_problem.py",
  "(colors[0], colors[-1]) if given not in self.colors else (given, given)",
  "(given, given) if given else (colors[0], colors[-1])",
  "a given of colour 0 is taken for an empty cell", "LatinSquareProblem.__init__")
V("latin-given-membership-flipped", "neutral", ["C13"], "nucs/problems/latin_square_problem.py",
  "(colors[0], colors[-1]) if given not in self.colors else (given, given)",
  "(given, given) if given in self.colors else (colors[0], colors[-1])",
  "the membership test with its branches exchanged")
V("mincost-scan-short", "neutral", ["C02", "C04", "C09"], H + "min_cost_dom_heuristic.py",
  "    for value in range(shr_domain[MIN], shr_domain[MAX] + 1):\n", "    for value in range(shr_domain[MIN], shr_domain[MAX]):\n",
  "the largest value is never a candidate: another (legal) value of the domain is branched on; the partition is intact (was a break before fix 31b7d71)")
V("mincost-scan-long", "break", ["C02", "C09"], H + "min_cost_dom_heuristic.py",
  "    for value in range(shr_domain[MIN], shr_domain[MAX] + 1):\n", "    for value in range(shr_domain[MIN], shr_domain[MAX] + 2):\n",
  "the scan reaches one value past the domain: a cheaper value outside it is branched on", "min_cost_dom_heuristic")
_BT_CALL = ("            if not backtrack(\n                self.statistics,\n                self.not_entailed_propagators_stack,\n                self.dom_update_stack,\n"
            "                self.stacks_top,\n                self.triggered_propagators,\n                self.problem.triggers,\n            ):\n"
            "                break  # the incumbent was the last leaf of the search tree\n")
_OPT_FOUND = "            logger.info(f\"Found a local optimum: {solution[variable_idx]}\")\n            best_solution = solution\n"
V("optimize-stops-on-last-leaf", "break", ["C17"], BS, _OPT_FOUND, _OPT_FOUND + _BT_CALL,
  "backtrack() used as the 'any alternative left?' test before the restart: the optimum is the same, but a popped choice point is counted and then discarded by reset()",
  "BacktrackSolver.optimize")
V("optimize-stops-on-last-leaf-optimum", "neutral", ["C03", "C04"], BS, _OPT_FOUND, _OPT_FOUND + _BT_CALL,
  "the same edit seen from C03 / C04: leaving after a solution when the stack is exhausted is a correct early stop (the check used to demand a tightening call on that path)")
V("optimize-stops-after-first", "break", ["C03"], BS, _OPT_FOUND, _OPT_FOUND + "            break\n",
  "the loop leaves unconditionally after its first solution: the first solution is returned as the optimum", "BacktrackSolver.optimize")
V("worker-helper-thread", "break", ["C18"], BS, None, None, "a non-daemon helper thread started in the worker keeps a crashed worker alive", "BacktrackSolver.solve_and_queue",
  edits=[{"old": "import logging\n", "new": "import logging\nimport threading\n"},
         {"old": "        logger.info(\"Solving and queuing solutions found\")\n", "new": "        logger.info(\"Solving and queuing solutions found\")\n        threading.Thread(target=logger.debug, args=(\"worker started\",)).start()\n"}])
V("worker-helper-thread-daemon", "neutral", ["C18", "C11"], BS, None, None, "the same helper thread as a daemon",
  edits=[{"old": "import logging\n", "new": "import logging\nimport threading\n"},
         {"old": "        logger.info(\"Solving and queuing solutions found\")\n", "new": "        logger.info(\"Solving and queuing solutions found\")\n        threading.Thread(target=logger.debug, args=(\"worker started\",), daemon=True).start()\n"}])
V("bounded-queue-timed-put", "break", ["C11", "C12"], MP, None, None, "a bounded solution queue and a put that gives up after 5 s: a pausing consumer loses solutions", None,
  edits=[{"old": "        solutions: Queue = Queue()\n", "new": "        solutions: Queue = Queue(4096)\n", "all": True}],
  also=[{"file": BS, "edits": [{"old": "            solution_queue.put((processor_idx, solution, self.statistics))\n", "new": "            solution_queue.put((processor_idx, solution, self.statistics), timeout=5)\n", "all": True}]}])
V("bounded-queue-blocking-put", "neutral", ["C11", "C12", "C18"], MP, None, None, "a bounded queue alone: the workers wait for the consumer",
  edits=[{"old": "        solutions: Queue = Queue()\n", "new": "        solutions: Queue = Queue(4096)\n", "all": True}])
V("find-all-unique", "break", ["C11"], MP, None, None, "find_all() of the multiprocessing solver returns np.unique of the rows: equal rows merged", "MultiprocessingSolver.find_all",
  edits=[{"old": "    def __init__(self, solvers: List[BacktrackSolver], log_level: str = LOG_LEVEL_INFO):\n",
          "new": "    def find_all(self):  # type: ignore\n        solutions = super().find_all()\n        return list(np.unique(np.array(solutions), axis=0)) if solutions else solutions\n\n"
                 "    def __init__(self, solvers: List[BacktrackSolver], log_level: str = LOG_LEVEL_INFO):\n"},
         {"old": "import logging\n", "new": "import logging\nimport numpy as np\n"}])
V("find-all-listed", "neutral", ["C11", "C12"], MP, None, None, "find_all() overridden to return a fresh list of the same rows",
  edits=[{"old": "    def __init__(self, solvers: List[BacktrackSolver], log_level: str = LOG_LEVEL_INFO):\n",
          "new": "    def find_all(self):  # type: ignore\n        solutions = super().find_all()\n        return list(solutions)\n\n"
                 "    def __init__(self, solvers: List[BacktrackSolver], log_level: str = LOG_LEVEL_INFO):\n"}])
V("queens-workers-whole-problem", "break", ["C12"], "nucs/examples/queens/__main__.py", "                for problem in problem.split(args.processors, 0)\n",
  "                for part in problem.split(args.processors, 0)\n", "the loop variable renamed but not its use: every worker is built on the whole problem", "<module>")
V("bc-clears-wakeup-column", "break", ["C01", "C03", "C13", "C15"], BC, "            not_entailed_propagators_stack[top, prop_idx] = False\n",
  "            not_entailed_propagators_stack[top, prop_idx] = False\n            if top == 0:\n                triggers[:, prop_idx] = 0\n",
  "an entailed propagator's column of the problem's wake-up table cleared 'at the root': it stays deaf after the next restart", "bound_consistency_algorithm")
V("solve-one-overflow-returns-none", "break", ["C19", "C02"], BS,
  "                raise IndexError(\"The choice points stack is full, please increase stack_max_height\")\n", "                return None\n",
  "no room for a push: the search returns like an exhausted one, without a mark", "solve_one")
V("solve-passes-queue-as-flags", "break", ["C02"], BS, None, None, "solve() hands the queue array where the enabled-flags stack is expected (and vice versa)", "BacktrackSolver.solve",
  edits=[{"old": "                self.not_entailed_propagators_stack,\n                self.dom_update_stack,\n                self.stacks_top,\n                self.triggered_propagators,\n                self.consistency_alg_idx,\n",
          "new": "                self.triggered_propagators,\n                self.dom_update_stack,\n                self.stacks_top,\n                self.not_entailed_propagators_stack,\n                self.consistency_alg_idx,\n",
          "within": "def solve(self)"}])
# ---- R-AFFINE-BOUND (round 6): bounds derived from a linear inequality by division
V("affine-leq-max-rounded-up", "break", ["C01", "C02"], P + "affine_leq_propagator.py", "                new_max = old_domains[i, MIN] + (domain_sum_max // c)\n",
  "                new_max = old_domains[i, MIN] - (-domain_sum_max // c)\n", "the maximum derived for a positive coefficient is the ceiling of the rational bound", "compute_domains_affine_leq",
  expect_rule="R-AFFINE-BOUND")
V("affine-geq-delta-hoisted", "break", ["C01", "C02"], P + "affine_geq_propagator.py", None, None,
  "the quotient hoisted out of the sign test: right for the minimum, rounded the wrong way for the maximum", "compute_domains_affine_geq", expect_rule="R-AFFINE-BOUND",
  edits=[{"old": "            if c > 0:\n                new_min = old_domains[i, MAX] - (domain_sum_min // -c)\n", "new": "            delta = domain_sum_min // -c\n            if c > 0:\n                new_min = old_domains[i, MAX] - delta\n"},
         {"old": "                new_max = old_domains[i, MIN] + (-domain_sum_min // -c)\n", "new": "                new_max = old_domains[i, MIN] - delta\n"}])
V("affine-eq-own-contribution", "break", ["C01", "C02"], P + "affine_eq_propagator.py", "                new_max = old_domains[i, MIN] + (domain_sum_max // c)\n",
  "                new_max = old_domains[i, MAX] + (domain_sum_max // c)\n", "the maximum is built on the variable's maximum although the accumulator subtracted its minimum", "compute_domains_affine_eq",
  expect_rule="R-AFFINE-BOUND")
V("affine-eq-wrong-accumulator", "break", ["C01", "C02"], P + "affine_eq_propagator.py", "                new_min = old_domains[i, MAX] - (-domain_sum_max // c)\n",
  "                new_min = old_domains[i, MAX] - (-domain_sum_min // c)\n", "negative coefficient: the minimum is derived from the accumulator that subtracted c * x.MIN", "compute_domains_affine_eq",
  expect_rule="R-AFFINE-BOUND")
V("affine-geq-quotient-sign", "break", ["C01", "C02"], P + "affine_geq_propagator.py", "                new_min = old_domains[i, MAX] - (domain_sum_min // -c)\n",
  "                new_min = old_domains[i, MAX] - (domain_sum_min // c)\n", "a lost negation: the minimum is x.MAX - acc/c over the reals", "compute_domains_affine_geq", expect_rule="R-AFFINE-BOUND")
V("affine-leq-quotient-temp", "neutral", ["C01", "C02"], P + "affine_leq_propagator.py", "                new_max = old_domains[i, MIN] + (domain_sum_max // c)\n",
  "                q = domain_sum_max // c\n                new_max = q + old_domains[i, MIN]\n", "the quotient held in a local, the sum commuted")
V("affine-leq-double-negation", "neutral", ["C01", "C02"], P + "affine_leq_propagator.py", "                new_min = old_domains[i, MAX] - (-domain_sum_max // c)\n",
  "                new_min = old_domains[i, MAX] + -(-domain_sum_max // c)\n", "x - q written as x + -q")
V("affine-geq-negated-both", "neutral", ["C01", "C02"], P + "affine_geq_propagator.py", "                new_max = old_domains[i, MIN] + (-domain_sum_min // -c)\n",
  "                nc = -c\n                new_max = old_domains[i, MIN] + (-domain_sum_min // nc)\n", "the negated coefficient held in a local")
V("lex-strict-half-forgotten", "break", ["C08"], P + "lexicographic_leq_propagator.py", None, None,
  "x_q < y_q: x's maximum lowered below y's, y's minimum raised only to x's (the + 1 forgotten on one half)", None, expect_rule="R-ENFORCE-ENTAIL",
  edits=[{"old": "        y[q, MIN] = max(y[q, MIN], x[q, MIN] + 1)\n", "new": "        y[q, MIN] = max(y[q, MIN], x[q, MIN])\n", "occurrence": 0}])
V("lex-strict-half-commuted", "neutral", ["C08", "C01", "C07"], P + "lexicographic_leq_propagator.py", None, None, "x.MIN + 1 written 1 + x.MIN",
  edits=[{"old": "        y[q, MIN] = max(y[q, MIN], x[q, MIN] + 1)\n", "new": "        y[q, MIN] = max(y[q, MIN], 1 + x[q, MIN])\n", "occurrence": 0}])
# ---- R-MARK-REUSE (round 6)
V("scc-marks-not-cleared", "break", ["C01"], P + "scc_propagator.py", "    visited[:] = False\n", "", "the second reachability pass starts on the marks of the first", "compute_domains_scc",
  expect_rule="R-MARK-REUSE")
V("scc-marks-reallocated", "neutral", ["C01"], P + "scc_propagator.py", "    visited[:] = False\n", "    visited = np.zeros(n, dtype=np.bool)\n", "a fresh mark array instead of a reset")
V("scc-marks-fill", "neutral", ["C01"], P + "scc_propagator.py", "    visited[:] = False\n", "    visited.fill(False)\n", "reset through fill()")
# ---- R-TWO-SIDED (round 6)
V("exactly-eq-upper-side-lost", "break", ["C01"], P + "exactly_eq_propagator.py", "            if count_min > 0:\n                return PROP_INCONSISTENCY\n", "",
  "'more than c variables already equal a' is no longer a failure", "compute_domains_exactly_eq", expect_rule="R-TWO-SIDED")
V("count-eq-lower-bound-not-stored", "break", ["C01"], P + "count_eq_propagator.py", "    counter[MIN] = max(counter[MIN], count_min)\n", "",
  "the number of variables already equal to a no longer raises the counter's minimum (nor fails against its maximum)", "compute_domains_count_eq", expect_rule="R-TWO-SIDED")
V("exactly-true-tests-mirrored", "neutral", ["C01", "C07"], P + "exactly_true_propagator.py", "            if count_min > 0:\n", "            if 0 < count_min:\n", "mirrored comparison")
# ---- round 6: a semaphore shared with the workers (C18-x3)
_SEM_EDITS = lambda acq: [
    {"old": "from multiprocessing import Process, Queue\n", "new": "from multiprocessing import BoundedSemaphore, Process, Queue, cpu_count\n"},
    {"old": "        solutions: Queue = Queue()\n        processes = []\n", "new": "        solutions: Queue = Queue()\n        slots = BoundedSemaphore(cpu_count())\n        processes = []\n", "all": True},
    {"old": "            process = Process(target=solver.solve_and_queue, args=(proc_idx, solutions))\n",
     "new": "            " + acq + "\n            process = Process(target=run_processor, args=(slots, solver.solve_and_queue, proc_idx, solutions))\n"},
    {"old": "            process = Process(target=(getattr(solver, proc_func_name)), args=(variable_idx, proc_idx, solutions))\n",
     "new": "            " + acq + "\n            process = Process(target=run_processor, args=(slots, getattr(solver, proc_func_name), variable_idx, proc_idx, solutions))\n"},
    {"old": "QUEUE_TIMEOUT = 1.0", "new": "def run_processor(slots: Any, proc_func: Callable, *args: Any) -> None:\n    try:\n        proc_func(*args)\n    finally:\n        slots.release()\n\n\nQUEUE_TIMEOUT = 1.0"},
]
V("spawn-throttled-blocking-acquire", "break", ["C18"], MP, None, None, "start-up throttled by a semaphore the workers release: acquire() without a timeout in the parent; killed workers never release", None,
  edits=_SEM_EDITS("slots.acquire()"), expect_rule="R-LIVENESS")
V("spawn-throttled-timed-acquire", "neutral", ["C18", "C11", "C12"], MP, None, None, "the same throttle with a bounded acquire (the worker is started anyway after the timeout); the wrapper forwards entry point and arguments",
  edits=_SEM_EDITS("slots.acquire(timeout=QUEUE_TIMEOUT)"))
# ---- R-TRIGGER-JOIN own-call (round 6, C08-x3)
_TRG = "            triggers = GET_TRIGGERS_FCTS[prop_algorithm](len(prop_vars), prop_params)\n"
V("triggers-memo-per-kind", "break", ["C01", "C08", "C13"], PB, _TRG,
  "            signature = (prop_algorithm, len(prop_vars))\n            if signature not in triggers_memo:\n                triggers_memo[signature] = GET_TRIGGERS_FCTS[prop_algorithm](len(prop_vars), prop_params)\n            triggers = triggers_memo[signature]\n",
  "wake-up events computed once per (algorithm, arity) and reused: the linear inequalities' events depend on the coefficient signs", "Problem.init", expect_rule="R-TRIGGER-JOIN",
  also=[{"file": PB, "edits": [{"old": "        self.triggers = np.zeros((self.shr_domain_nb, self.propagator_nb), dtype=np.uint8)\n", "new": "        self.triggers = np.zeros((self.shr_domain_nb, self.propagator_nb), dtype=np.uint8)\n        triggers_memo = {}\n"}]}])
V("triggers-first-constraint-params", "break", ["C01", "C08", "C13"], PB, _TRG, "            triggers = GET_TRIGGERS_FCTS[prop_algorithm](len(prop_vars), self.propagators[0][2])\n",
  "the trigger function is given the parameters of the first constraint", "Problem.init", expect_rule="R-TRIGGER-JOIN")
V("triggers-call-through-local", "neutral", ["C01", "C08", "C13", "C15"], PB, _TRG, "            get_triggers = GET_TRIGGERS_FCTS[prop_algorithm]\n            triggers = get_triggers(len(prop_vars), prop_params)\n",
  "the trigger function held in a local first")
# ---- R-VALUE-WIDTH (round 6, C13-x3)
V("props-offsets-16-bit", "break", ["C01", "C13", "C19"], PB, "        self.props_dom_offsets = np.empty(self.var_bounds[-1, RG_END], dtype=np.int32)\n",
  "        self.props_dom_offsets = np.empty(self.var_bounds[-1, RG_END], dtype=np.int16)\n", "the per-constraint copy of the view offsets stored as 16-bit integers", None, expect_rule="R-VALUE-WIDTH",
  also=[{"file": "nucs/constants.py", "edits": [{"old": "    int32[:, :],  # props_dom_offsets\n", "new": "    int16[:, :],  # props_dom_offsets\n"},
                                                {"old": "from numba import bool, int32, int64, types, uint8, uint16  # type: ignore\n", "new": "from numba import bool, int16, int32, int64, types, uint8, uint16  # type: ignore\n"}]}])
# ---- R-SHAVE bound-argument-range (round 6, C16-x1)
V("shaving-bound-reaches-2", "break", ["C16", "C10"], SH, None, None, "bound += 1 moved out of the not-shaved branch, the wrap-around test stays inside: after a successful shave of a MAX the next probe uses bound 2",
  "shaving_consistency_algorithm", expect_rule="R-SHAVE",
  edits=[{"old": "        start_idx = dom_idx\n        if has_shaved:\n", "new": "        start_idx = dom_idx\n        bound += 1\n        if has_shaved:\n"},
         {"old": "            # this is one of the many shaving strategies\n            bound += 1\n", "new": ""}])
V("shaving-bound-toggle", "neutral", ["C16", "C10", "C04"], SH, "            bound += 1\n            if bound > MAX:\n                bound = MIN\n                start_idx += 1\n",
  "            if bound == MAX:\n                bound = MIN\n                start_idx += 1\n            else:\n                bound = MAX\n", "the selector toggled instead of incremented and wrapped")
# ---- R-EXTENT sentinel-reaches-index (round 6, C16-x2)
V("pop-previous-sentinel-untested", "break", ["C16"], PR, "    if previous_prop_idx != -1 and triggered_propagators[previous_prop_idx]:\n", "    if triggered_propagators[previous_prop_idx]:\n",
  "the -1 'no previous propagator' sentinel indexes the queue (outside it for a model without constraints)", "pop_propagator", expect_rule="R-EXTENT")
V("pop-previous-sentinel-ge0", "neutral", ["C16", "C01", "C08"], PR, "    if previous_prop_idx != -1 and triggered_propagators[previous_prop_idx]:\n",
  "    if previous_prop_idx >= 0 and triggered_propagators[previous_prop_idx]:\n", "the sentinel excluded by a sign test")
# ---- R-COST-TABLE column through a slice (round 6, C16-x3)
V("mincost-row-sliced-absolute-index", "break", ["C16"], H + "min_cost_dom_heuristic.py", None, None, "the cost row narrowed to the domain's slice but still indexed by the absolute value",
  "min_cost_dom_heuristic", expect_rule="R-COST-TABLE",
  edits=[{"old": "        cost = params[dom_idx][value]\n", "new": "        cost = params[dom_idx, shr_domain[MIN] : shr_domain[MAX] + 1][value]\n"}])
V("mincost-row-sliced-relative-index", "neutral", ["C16", "C09", "C02"], H + "min_cost_dom_heuristic.py", None, None, "the same slice indexed by value - minimum",
  edits=[{"old": "        cost = params[dom_idx][value]\n", "new": "        cost = params[dom_idx, shr_domain[MIN] : shr_domain[MAX] + 1][value - shr_domain[MIN]]\n"}])
# ---- R-GLOBAL-STATE argument-aliased (round 6, C15-x1)
V("solver-config-asarray", "break", ["C15"], BS, "        self.dom_heuristic_params = np.array(dom_heuristic_params, dtype=np.int64)\n",
  "        self.dom_heuristic_params = np.asarray(dom_heuristic_params, dtype=np.int64)\n", "the value-heuristic parameter table is the caller's own array when it is already int64", "BacktrackSolver.__init__",
  expect_rule="R-GLOBAL-STATE")
V("solver-config-array-copy-true", "neutral", ["C15", "C11", "C12"], BS, "        self.dom_heuristic_params = np.array(dom_heuristic_params, dtype=np.int64)\n",
  "        self.dom_heuristic_params = np.array(dom_heuristic_params, dtype=np.int64, copy=True)\n", "explicit copy=True")
# ---- R-SOLE-CANDIDATE candidate-test-bypassed (round 6, C08-x1)
V("max-eq-candidate-elif", "break", ["C02", "C08"], P + "max_eq_propagator.py", "        if x[i, MAX] >= y[MIN]:", "        elif x[i, MAX] >= y[MIN]:",
  "the candidate test merged into an elif of the 'cut back to y.max' test: a variable cut back in this execution is not counted", "compute_domains_max_eq", expect_rule="R-SOLE-CANDIDATE")
# ---- round 6: R-MODE-ARITH invert-on-truth-value (C15-x2), one-marker-last for C12 (C12-x3)
V("shaving-counters-branchless", "break", ["C15", "C17"], SH, None, None, "the two outcome counters fed with has_shaved / ~has_shaved: ~ on a Python bool is -1 / -2 when interpreted",
  "shaving_consistency_algorithm", expect_rule=None,
  edits=[{"old": "        if has_shaved:\n            statistics[STATS_IDX_ALG_SHAVING_CHANGE_NB] += 1\n        else:\n            statistics[STATS_IDX_ALG_SHAVING_NO_CHANGE_NB] += 1\n",
          "new": "        statistics[STATS_IDX_ALG_SHAVING_CHANGE_NB] += has_shaved\n        statistics[STATS_IDX_ALG_SHAVING_NO_CHANGE_NB] += ~has_shaved\n        if not has_shaved:\n"}])
# ---- round 6: in-place update of the parameters (C07-x2)
V("affine-geq-negates-parameters", "break", ["C01", "C07", "C08"], P + "affine_geq_propagator.py", "    domain_sum_min = domain_sum_max = parameters[-1]\n",
  "    parameters *= -1\n    parameters *= -1\n    domain_sum_min = domain_sum_max = parameters[-1]\n", "the parameters array (a view of the problem's table) updated in place", "compute_domains_affine_geq",
  expect_rule="R-PROP-EFFECTS")
# ---- R-POSTED-KEPT (round 6, C02-x3 / C07-x3 / C13-x1)
V("add-propagator-skips-some", "break", ["C01", "C02", "C07", "C13"], PB, "        self.propagators.append(propagator)\n        self.propagator_nb = len(self.propagators)\n",
  "        if len(propagator[0]) > 0:\n            self.propagators.append(propagator)\n        self.propagator_nb = len(self.propagators)\n",
  "a constraint is recorded only under a condition", "Problem.add_propagator", expect_rule="R-POSTED-KEPT")
V("init-filters-constraints", "break", ["C01", "C02", "C07", "C13"], PB, "        self.propagators.sort(", "        self.propagators = [p for p in self.propagators if len(p[0]) > 1]\n        self.propagators.sort(",
  "init() rewrites the list of constraints through a filter", "Problem.init", expect_rule="R-POSTED-KEPT")
V("add-propagators-one-by-one", "neutral", ["C01", "C02", "C07", "C13", "C15"], PB, "        self.propagators.extend(propagators)\n",
  "        for propagator in propagators:\n            self.propagators.append(propagator)\n", "extend written as a loop of appends")
# ---- R-SWALLOWED-RAISE division (round 6, C10-x1)
V("shaving-yield-cutoff-unguarded", "break", ["C10", "C15"], SH, "        statistics[STATS_IDX_ALG_SHAVING_NB] += 1\n",
  "        if statistics[STATS_IDX_ALG_SHAVING_CHANGE_NB] / statistics[STATS_IDX_ALG_SHAVING_NO_CHANGE_NB] < 0.02:\n            break\n        statistics[STATS_IDX_ALG_SHAVING_NB] += 1\n",
  "adaptive cut-off dividing by a counter that is 0 while every probe has succeeded: ZeroDivisionError behind the function pointer", "shaving_consistency_algorithm", expect_rule="R-SWALLOWED-RAISE")
V("shaving-yield-cutoff-guarded", "neutral", ["C15"], SH, "        statistics[STATS_IDX_ALG_SHAVING_NB] += 1\n",
  "        failed_nb = statistics[STATS_IDX_ALG_SHAVING_NO_CHANGE_NB]\n        if failed_nb > 0 and statistics[STATS_IDX_ALG_SHAVING_CHANGE_NB] / failed_nb < 0.02:\n            break\n        statistics[STATS_IDX_ALG_SHAVING_NB] += 1\n",
  "the same cut-off with the divisor tested first")
# ---- R-MODE-ARITH heuristic-answer-difference (round 6, C15-x3)
GO = "nucs/examples/golomb/golomb_problem.py"
V("golomb-free-marks-hoisted", "break", ["C15"], GO, None, None, "mark_nb - ni_var_idx hoisted above the guard and used in it: wraps in interpreted mode once all marks are placed",
  "golomb_consistency_algorithm", expect_rule="R-MODE-ARITH",
  edits=[{"old": "    if 1 < ni_var_idx < mark_nb - 1:  # otherwise useless\n", "new": "    free_mark_nb = mark_nb - ni_var_idx\n    if 1 < ni_var_idx and 1 < free_mark_nb:  # otherwise useless\n"}])
V("golomb-free-marks-inside-guard", "neutral", ["C15", "C16"], GO, None, None, "the same local computed inside the guard",
  edits=[{"old": "        for j in range(0, mark_nb - ni_var_idx):\n", "new": "        free_mark_nb = mark_nb - ni_var_idx\n        for j in range(0, free_mark_nb):\n"}])
V("domain-stack-widened", "neutral", ["C01", "C13", "C19"], BS, "        self.shr_domains_stack = np.empty((stack_max_height, self.problem.shr_domain_nb, 2), dtype=np.int32)\n",
  "        self.shr_domains_stack = np.empty((stack_max_height, self.problem.shr_domain_nb, 2), dtype=np.int64)\n", "the domain stack alone widened to 64 bits (R-VALUE-WIDTH: only a narrower carrier loses something)")
# ---- R-STATUS-EXHAUSTIVE (round 6, C19-x3)
V("shaving-answers-stack-full", "break", ["C19", "C02", "C10"], SH, None, None, "shaving reports 'no free level' through a new status that solve_one's dispatch does not name (the node is abandoned as a failure)",
  "shaving_consistency_algorithm", expect_rule="R-STATUS-EXHAUSTIVE",
  edits=[{"old": "        if stacks_top[0] >= len(shr_domains_stack) - 1:  # no room left for the temporary choice point of a probe\n            break\n",
          "new": "        if stacks_top[0] >= len(shr_domains_stack) - 1:  # no room left for the temporary choice point of a probe\n            return PROBLEM_STACK_FULL\n"},
         {"old": "    PROBLEM_UNBOUND,\n", "new": "    PROBLEM_STACK_FULL,\n    PROBLEM_UNBOUND,\n"}],
  also=[{"file": "nucs/constants.py", "edits": [{"old": "PROBLEM_BOUND = 2  # returned when a problem is solved\n", "new": "PROBLEM_BOUND = 2  # returned when a problem is solved\nPROBLEM_STACK_FULL = 3\n"}]}])
V("shaving-full-stack-returns-unbound", "neutral", ["C19", "C02", "C10", "C04"], SH, None, None, "the same exit written as an explicit return of PROBLEM_UNBOUND",
  edits=[{"old": "        if stacks_top[0] >= len(shr_domains_stack) - 1:  # no room left for the temporary choice point of a probe\n            break\n",
          "new": "        if stacks_top[0] >= len(shr_domains_stack) - 1:  # no room left for the temporary choice point of a probe\n            return PROBLEM_UNBOUND\n"}])
# ---- helper extraction (round 7): new small helpers are inlined before the rules read the program (nucsverif/inline.py)
_RESET_CALL = """            reset(
                self.problem,
                self.shr_domains_stack,
                self.not_entailed_propagators_stack,
                self.dom_update_stack,
                self.stacks_top,
                self.triggered_propagators,
            )
"""
_RESET_METHOD = """    def reset(self) -> None:
        reset(
            self.problem,
            self.shr_domains_stack,
            self.not_entailed_propagators_stack,
            self.dom_update_stack,
            self.stacks_top,
            self.triggered_propagators,
        )

    def minimize(self, variable_idx: int)"""
V("reset-as-method", "neutral", ["C03", "C04", "C11", "C01", "C02", "C17"], BS, None, None, "the optimisation loops call a new method self.reset() that wraps reset(...)",
  edits=[{"old": _RESET_CALL, "new": "            self.reset()\n", "all": True}, {"old": "    def minimize(self, variable_idx: int)", "new": _RESET_METHOD}])
V("reset-as-method-forgets-queue", "break", ["C03"], BS, None, None, "the same method re-initialises the stacks but no longer marks every propagator as triggered",
  "optimize", edits=[{"old": _RESET_CALL, "new": "            self.reset()\n", "all": True},
         {"old": "    def minimize(self, variable_idx: int)", "new": _RESET_METHOD.replace("        reset(\n            self.problem,", "        cp_init(").replace("            self.triggered_propagators,\n        )", "            np.array(self.problem.shr_domains_lst),\n        )")}])
_CHOICE_OLD = """            add_propagators(
                triggered_propagators,
                not_entailed_propagators_stack[stacks_top[0]],
                triggers,
                dom_idx,
                events,
            )
            statistics[STATS_IDX_SOLVER_CHOICE_NB] += 1
            if stacks_top[0] > statistics[STATS_IDX_SOLVER_CHOICE_DEPTH]:
                statistics[STATS_IDX_SOLVER_CHOICE_DEPTH] = stacks_top[0]
"""
_CHOICE_CALL = "            record_choice(statistics, triggers, not_entailed_propagators_stack, stacks_top, triggered_propagators, dom_idx, events)\n"
_CHOICE_DEF = """@njit(cache=True)
def record_choice(statistics, triggers, not_entailed_propagators_stack, stacks_top, triggered_propagators, dom_idx, events):
    add_propagators(
        triggered_propagators,
        not_entailed_propagators_stack[stacks_top[0]],
        triggers,
        dom_idx,
        events,
    )
    statistics[STATS_IDX_SOLVER_CHOICE_NB] += 1
    if stacks_top[0] > statistics[STATS_IDX_SOLVER_CHOICE_DEPTH]:
        statistics[STATS_IDX_SOLVER_CHOICE_DEPTH] = stacks_top[0]


@njit(cache=True)
def solve_one("""
V("choice-bookkeeping-helper", "neutral", ["C17", "C01", "C02", "C04", "C08", "C09", "C15", "C19"], BS, None, None, "waking the propagators of a decision and its two counters moved into a new jitted helper",
  edits=[{"old": _CHOICE_OLD, "new": _CHOICE_CALL}, {"old": "@njit(cache=True)\ndef solve_one(", "new": _CHOICE_DEF}])
V("choice-bookkeeping-helper-counts-twice", "break", ["C17"], BS, None, None, "the same helper, but solve_one still increments the number of choices itself",
  "solve_one", edits=[{"old": _CHOICE_OLD, "new": _CHOICE_CALL + "            statistics[STATS_IDX_SOLVER_CHOICE_NB] += 1\n"}, {"old": "@njit(cache=True)\ndef solve_one(", "new": _CHOICE_DEF}])
V("choice-bookkeeping-helper-drops-ground", "break", ["C09", "C01", "C08"], BS, None, None, "the same helper, handing the decision's events over without the GROUND bit",
  "solve_one", edits=[{"old": _CHOICE_OLD, "new": _CHOICE_CALL}, {"old": "@njit(cache=True)\ndef solve_one(", "new": _CHOICE_DEF.replace("        events,\n    )", "        events & 3,\n    )")}])
# ---- round 7: positions appended to the variable -> domain table, extent of the wake-up table, signed level pointer
V("addvars-domains-numbered-from-variables", "break", ["C13", "C02", "C01", "C16"], PB, None, None,
  "add_variables numbers the automatically created shared domains from the number of variables (C13-y1)", "add_variables", expect_rule="R-INDEX-KIND",
  edits=[{"old": "            dom_indices_list = [shr_domain_idx + i for i in range(n)]\n", "new": "            dom_indices_list = list(range(insertion_idx, insertion_idx + n))\n"}])
V("addvars-domains-range-form", "neutral", ["C13", "C02", "C01", "C16"], PB, None, None, "the same list written with range() from the number of shared domains",
  edits=[{"old": "            dom_indices_list = [shr_domain_idx + i for i in range(n)]\n", "new": "            dom_indices_list = list(range(shr_domain_idx, shr_domain_idx + n))\n"}])
V("triggers-rows-from-used-domains", "break", ["C16", "C13"], PB, "        self.triggers = np.zeros((self.shr_domain_nb, self.propagator_nb), dtype=np.uint8)\n",
  "        self.triggers = np.zeros((max(self.dom_indices_lst) + 1, self.propagator_nb), dtype=np.uint8)\n",
  "the wake-up table gets one row per shared domain a variable uses (C16-y2): a decision on an unused trailing domain reads past it", "init", expect_rule="R-INIT-COHERENCE")
V("level-pointer-signed", "break", ["C19", "C16"], BS, "        self.stacks_top = np.ones((1,), dtype=np.uint8)\n", "        self.stacks_top = np.ones((1,), dtype=np.int8)\n",
  "signed 8-bit level pointer while heights up to 256 are accepted (C19-y2): wraps to -128 at level 128", "__init__", expect_rule="R-CAPACITY")
# ---- reset handed the root domains by its callers (round 7, neutral corpus D-n6)
_RESET_SIG = [{"old": "    problem: Problem,\n", "new": "    shr_domains_arr: NDArray,\n", "within": "def reset("},
              {"old": "        np.array(problem.shr_domains_lst),\n", "new": "        shr_domains_arr,\n", "within": "def reset("}]
V("reset-root-built-once-per-optimisation", "neutral", ["C01", "C03", "C08", "C11", "C12", "C15"], BS, None, None,
  "reset() is handed the root domains, a fresh np.array(problem.shr_domains_lst) the optimisation loop takes once before it starts",
  edits=_RESET_SIG + [{"old": "            reset(\n                self.problem,\n", "new": "            reset(\n                initial_shr_domains,\n", "all": True},
                      {"old": "        logger.debug(f\"Optimizing variable {variable_idx}\")\n", "new": "        logger.debug(f\"Optimizing variable {variable_idx}\")\n        initial_shr_domains = np.array(self.problem.shr_domains_lst)\n"},
                      {"old": "        logger.debug(f\"Optimizing variable {variable_idx} and queuing solutions found\")\n", "new": "        logger.debug(f\"Optimizing variable {variable_idx} and queuing solutions found\")\n        initial_shr_domains = np.array(self.problem.shr_domains_lst)\n"}])
V("reset-root-cached-in-constructor", "break", ["C12", "C15"], BS, None, None,
  "the same reset(), handed a copy of the root domains kept on the solver since its construction (a problem edited or split afterwards is solved on its old domains)",
  "reset", expect_rule="R-DOMAIN-SOURCE",
  edits=_RESET_SIG + [{"old": "            reset(\n                self.problem,\n", "new": "            reset(\n                self.initial_shr_domains,\n", "all": True},
                      {"old": "        self.statistics = np.array([0] * STATS_MAX, dtype=np.int64)\n", "new": "        self.statistics = np.array([0] * STATS_MAX, dtype=np.int64)\n        self.initial_shr_domains = np.array(problem.shr_domains_lst)\n"}])
