"""Mod-summaries: which parameters a function may store through (directly, through a local view alias, or by
passing them on to a callee that does).  Syntactic, flow-insensitive, transitive over direct calls and over
indirect calls through a registry."""
from __future__ import annotations

import ast
from typing import Dict, List, Optional, Set, Tuple

from .program import FuncInfo, Program

MUTATORS = {"fill", "sort", "append", "extend", "insert", "pop", "remove", "clear", "put", "update", "setdefault", "resize", "itemset"}


def _base_name(e: ast.expr) -> Optional[str]:
    while isinstance(e, (ast.Subscript, ast.Attribute)):
        if isinstance(e, ast.Attribute) and e.attr in ("T",):
            e = e.value
            continue
        if isinstance(e, ast.Attribute):
            return None
        e = e.value
    return e.id if isinstance(e, ast.Name) else None


def aliases_of(fn: FuncInfo) -> Dict[str, Set[str]]:
    """local name -> set of parameter names it may be a view of."""
    al: Dict[str, Set[str]] = {p: {p} for p in fn.params}
    for _ in range(4):
        changed = False
        for n in ast.walk(fn.node):
            pairs: List[Tuple[ast.expr, ast.expr]] = []
            if isinstance(n, ast.Assign):
                for t in n.targets:
                    pairs.append((t, n.value))
            elif isinstance(n, ast.For):
                it = n.iter
                if isinstance(it, ast.Call) and isinstance(it.func, ast.Name) and it.func.id == "enumerate" and it.args:
                    if isinstance(n.target, ast.Tuple) and len(n.target.elts) == 2:
                        pairs.append((n.target.elts[1], it.args[0]))
                else:
                    pairs.append((n.target, it))
            elif isinstance(n, ast.NamedExpr):
                pairs.append((n.target, n.value))
            for t, v in pairs:
                if isinstance(t, ast.Name):
                    src: Set[str] = set()
                    vv = v
                    # a subscript of an array is a view (when it is not a full scalar index we cannot tell: keep it)
                    b = _base_name(vv) if isinstance(vv, (ast.Subscript, ast.Name)) else None
                    if b and b in al:
                        src = al[b]
                    if src and not src <= al.get(t.id, set()):
                        al.setdefault(t.id, set()).update(src)
                        changed = True
        if not changed:
            break
    return al


class Effects:
    def __init__(self, prog: Program):
        self.prog = prog
        self.mods: Dict[str, Set[str]] = {}
        self._compute()

    def _callees(self, fn: FuncInfo, call: ast.Call, regs_local: Dict[str, str]) -> List[FuncInfo]:
        out: List[FuncInfo] = []
        if isinstance(call.func, ast.Name):
            nm = call.func.id
            if nm in regs_local:
                reg = self.prog.registry(regs_local[nm])
                out = [e for e in list(reg.entries) + list(reg.extra) if isinstance(e, FuncInfo)]
            else:
                r = self.prog.resolve(fn.module, nm)
                if r and r[0] == "func":
                    out = [r[1]]
        return out

    def _compute(self) -> None:
        prog = self.prog
        fns = prog.all_functions()
        regs = {nm for (_, nm) in prog.registries}
        info = {}
        for f in fns:
            al = aliases_of(f)
            direct: Set[str] = set()
            for n in ast.walk(f.node):
                tgts: List[ast.expr] = []
                if isinstance(n, ast.Assign):
                    tgts = list(n.targets)
                elif isinstance(n, (ast.AugAssign, ast.AnnAssign)):
                    tgts = [n.target]
                for t in tgts:
                    for el in (t.elts if isinstance(t, ast.Tuple) else [t]):
                        if isinstance(el, ast.Subscript):
                            b = _base_name(el)
                            if b and b in al:
                                direct |= al[b]
                        elif isinstance(n, ast.AugAssign) and isinstance(el, ast.Name) and _array_param(f, {el.id}):
                            # `a *= k` on an array PARAMETER is an in-place update of the caller's array (a local holding an element is a scalar)
                            direct.add(el.id)
                if isinstance(n, ast.Call) and isinstance(n.func, ast.Attribute) and n.func.attr in MUTATORS:
                    b = _base_name(n.func.value)
                    if b and b in al:
                        direct |= al[b]
            regs_local: Dict[str, str] = {}
            for n in ast.walk(f.node):
                if isinstance(n, ast.Assign) and len(n.targets) == 1 and isinstance(n.targets[0], ast.Name):
                    for sub in ast.walk(n.value):
                        if isinstance(sub, ast.Subscript) and isinstance(sub.value, ast.Name) and sub.value.id in regs:
                            regs_local[n.targets[0].id] = sub.value.id
                        if isinstance(sub, ast.Call) and isinstance(sub.func, ast.Name) and sub.func.id == "function_from_address" and sub.args:
                            t = sub.args[0]
                            if isinstance(t, ast.Name) and t.id in prog.dispatch_types():
                                regs_local[n.targets[0].id] = prog.dispatch_types()[t.id]
            calls = []
            for n in ast.walk(f.node):
                if isinstance(n, ast.Call):
                    cs = self._callees(f, n, regs_local)
                    if cs:
                        calls.append((n, cs))
            info[f.fq] = (f, al, calls)
            self.mods[f.fq] = set(direct)
        for _ in range(10):
            changed = False
            for fq, (f, al, calls) in info.items():
                for n, cs in calls:
                    for c in cs:
                        cm = self.mods.get(c.fq, set())
                        if not cm:
                            continue
                        for i, a in enumerate(n.args):
                            if i < len(c.params) and c.params[i] in cm:
                                b = _base_name(a) if isinstance(a, (ast.Name, ast.Subscript)) else None
                                if b and b in al:
                                    new = al[b] - self.mods[fq]
                                    if new:
                                        self.mods[fq] |= new
                                        changed = True
            if not changed:
                break

    def modified_positions(self, fns: List[FuncInfo]) -> Set[int]:
        out: Set[int] = set()
        for f in fns:
            m = self.mods.get(f.fq, set())
            for i, p in enumerate(f.params):
                if p in m:
                    out.add(i)
        return out


def _array_param(f, names) -> bool:
    """is one of `names` a parameter of f annotated as an array (NDArray / ndarray / np.ndarray)?"""
    a = f.node.args
    for p in a.posonlyargs + a.args:
        if p.arg in names and p.annotation is not None and "array" in ast.unparse(p.annotation).lower():
            return True
    return False


def get_effects(prog: Program) -> Effects:
    e = getattr(prog, "_effects", None)
    if e is None:
        e = Effects(prog)
        prog._effects = e  # type: ignore[attr-defined]
    return e
