"""Sensitivity self-test (thorough tier): does each rule fire on a broken variant and stay silent on a neutral twin?

A *variant* is a single-site edit of the CURRENT working tree of /repo/nucs, described in
`tables/variants.json` as (file, old text, new text).  `old` must occur exactly once in the
file (after the optional `within` function anchor); if it does not (the tree was edited
there) the variant is reported as *stale* and skipped -- never a verdict on the tree.
Every variant is applied to a scratch copy of <repo>/nucs under a temporary directory
(outside /repo and /verif, removed as soon as the variant has been evaluated), and the
property's check is run on the copy *statically* (the copy is parsed, never imported).

Expectations: kind=break -> exit 1 and some reported finding names `expect_fn`
              kind=neutral -> exit 0
A mismatch makes the thorough run exit 2 (ANALYSIS-ERROR: the checker, not the code, needs
attention).  The matrix is appended to the thorough evidence under coverage.variant_matrix.
"""
from __future__ import annotations

import json
import os
import shutil
import subprocess
import sys
import tempfile
from concurrent.futures import ThreadPoolExecutor
from typing import Any, Dict, List, Optional, Tuple

HERE = os.path.dirname(os.path.abspath(__file__))
VERIF = os.path.dirname(HERE)
def load_variants() -> List[Dict[str, Any]]:
    from .tables.variants import VARIANTS

    return VARIANTS


def _apply(src: str, v: Dict[str, Any]) -> Optional[str]:
    """Return the edited source or None when the edit site is stale."""
    edits = v.get("edits") or [{"old": v["old"], "new": v["new"]}]
    out = src
    for e in edits:
        old, new = e["old"], e["new"]
        lo, hi = 0, len(out)
        within = e.get("within") or v.get("within")
        if within:
            k = out.find(within)
            if k < 0:
                return None
            lo = k
            # the region ends at the next top-level def/class after the anchor
            nxt = [out.find(m, k + len(within)) for m in ("\ndef ", "\nclass ", "\n@njit", "\n@register", "\n    def ")]
            nxt = [x for x in nxt if x >= 0]
            hi = min(nxt) if nxt else len(out)
        region = out[lo:hi]
        cnt = region.count(old)
        want = e.get("occurrence")
        if e.get("all"):
            if cnt == 0:
                return None
            region = region.replace(old, new)
        elif want is None:
            if cnt != 1:
                return None
            region = region.replace(old, new, 1)
        else:
            if cnt <= want:
                return None
            pos = -1
            for _ in range(want + 1):
                pos = region.find(old, pos + 1)
            region = region[:pos] + new + region[pos + len(old):]
        out = out[:lo] + region + out[hi:]
    return out if out != src else None


def _run_one(v: Dict[str, Any], prop: str, repo: str) -> Dict[str, Any]:
    rec: Dict[str, Any] = {"id": v["id"], "kind": v["kind"], "property": prop, "file": v["file"], "what": v.get("what", "")}
    src_path = os.path.join(repo, v["file"])
    try:
        with open(src_path, encoding="utf-8") as f:
            src = f.read()
    except OSError:
        rec["verdict"] = "stale"
        return rec
    new = _apply(src, v)
    if new is None:
        rec["verdict"] = "stale"
        return rec
    try:
        compile(new, v["file"], "exec")
    except SyntaxError as e:
        rec["verdict"] = "stale"
        rec["note"] = f"edited file does not parse: {e}"
        return rec
    tmp = tempfile.mkdtemp(prefix="nucsverif-variant-")
    try:
        shutil.copytree(os.path.join(repo, "nucs"), os.path.join(tmp, "nucs"), ignore=shutil.ignore_patterns("__pycache__", "*.nbi", "*.nbc"))
        if os.path.isdir(os.path.join(repo, "tests")):
            shutil.copytree(os.path.join(repo, "tests"), os.path.join(tmp, "tests"), ignore=shutil.ignore_patterns("__pycache__", "*.nbi", "*.nbc"))
        with open(os.path.join(tmp, v["file"]), "w", encoding="utf-8") as f:
            f.write(new)
        for extra in v.get("also", []):  # edits in further files (a change with two cooperating sites)
            with open(os.path.join(tmp, extra["file"]), encoding="utf-8") as f:
                src2 = f.read()
            new2 = _apply(src2, extra)
            if new2 is None:
                rec["verdict"] = "stale"
                return rec
            compile(new2, extra["file"], "exec")
            with open(os.path.join(tmp, extra["file"]), "w", encoding="utf-8") as f:
                f.write(new2)
        env = dict(os.environ)
        env["NUCSVERIF_OUT"] = os.path.join(tmp, "out")
        env["PYTHONPATH"] = VERIF
        p = subprocess.run([sys.executable, "-m", "nucsverif", "check", prop, "--tier", "quick", "--repo", tmp],
                           cwd=VERIF, env=env, capture_output=True, text=True, timeout=900)
        rec["exit"] = p.returncode
        out = p.stdout
        fired = [ln.strip() for ln in out.splitlines() if ln.startswith("  ") and "[" in ln]
        rec["reported"] = [ln[:260] for ln in fired[:4]]
        if v["kind"] == "break":
            named = any(v.get("expect_fn", "") in ln for ln in fired) if v.get("expect_fn") else True
            rule_ok = any(v["expect_rule"] in ln for ln in fired) if v.get("expect_rule") else True
            if p.returncode == 1 and named and rule_ok:
                rec["verdict"] = "fired"
            elif p.returncode == 1:
                rec["verdict"] = "fired-elsewhere"
            elif p.returncode == 0:
                rec["verdict"] = "MISSED"
            else:
                rec["verdict"] = "analysis-error"
                rec["note"] = out.strip().splitlines()[-1][:300] if out.strip() else p.stderr[-300:]
        else:
            if p.returncode == 0:
                rec["verdict"] = "silent"
            elif p.returncode == 1:
                rec["verdict"] = "FALSE-ALARM"
            else:
                rec["verdict"] = "analysis-error"
                rec["note"] = out.strip().splitlines()[-1][:300] if out.strip() else p.stderr[-300:]
    except subprocess.TimeoutExpired:
        rec["verdict"] = "analysis-error"
        rec["note"] = "timeout"
    finally:
        shutil.rmtree(tmp, ignore_errors=True)
    return rec


# ------------------------------------------------------------------ whole-tree neutral rewrites
def neutral_rewrite(src: str, mode: str) -> str:
    from .neutral import transform

    return transform(src, mode)


def run_neutral(prop: str, repo: str, modes=None) -> List[Dict[str, Any]]:
    from .neutral import MODES

    modes = modes or MODES
    out = []
    for mode in modes:
        tmp = tempfile.mkdtemp(prefix=f"nucsverif-neutral-{mode}-")
        rec: Dict[str, Any] = {"id": f"whole-tree:{mode}", "kind": "neutral", "property": prop, "file": "nucs/**", "what": f"whole tree rewritten ({mode})"}
        try:
            for d in ("nucs", "tests"):
                if os.path.isdir(os.path.join(repo, d)):
                    shutil.copytree(os.path.join(repo, d), os.path.join(tmp, d), ignore=shutil.ignore_patterns("__pycache__", "*.nbi", "*.nbc"))
            for dp, _, fs in os.walk(os.path.join(tmp, "nucs")):
                for f in fs:
                    if f.endswith(".py"):
                        p = os.path.join(dp, f)
                        with open(p, encoding="utf-8") as fh:
                            src = fh.read()
                        with open(p, "w", encoding="utf-8") as fh:
                            fh.write(neutral_rewrite(src, mode))
            env = dict(os.environ)
            env["NUCSVERIF_OUT"] = os.path.join(tmp, "out")
            env["PYTHONPATH"] = VERIF
            p_ = subprocess.run([sys.executable, "-m", "nucsverif", "check", prop, "--tier", "quick", "--repo", tmp], cwd=VERIF, env=env, capture_output=True, text=True, timeout=900)
            rec["exit"] = p_.returncode
            rec["verdict"] = "silent" if p_.returncode == 0 else ("FALSE-ALARM" if p_.returncode == 1 else "analysis-error")
            if p_.returncode != 0:
                rec["note"] = (p_.stdout.strip().splitlines() or [""])[-1][:300]
        except Exception as e:  # noqa
            rec["verdict"] = "analysis-error"
            rec["note"] = repr(e)[:200]
        finally:
            shutil.rmtree(tmp, ignore_errors=True)
        out.append(rec)
    return out


GOOD = {"fired", "silent", "stale"}


def run_matrix(props: Optional[List[str]], repo: str, ids: Optional[List[str]] = None, jobs: int = 16) -> List[Dict[str, Any]]:
    tasks: List[Tuple[Dict[str, Any], str]] = []
    for v in load_variants():
        if ids and v["id"] not in ids:
            continue
        for p in v["properties"]:
            if props is None or p in props:
                tasks.append((v, p))
    with ThreadPoolExecutor(max_workers=jobs) as ex:
        return list(ex.map(lambda t: _run_one(t[0], t[1], repo), tasks))


def run_selftest(prop: str, mod: Any, repo: str) -> int:
    """Called by the CLI after a clean thorough run of `prop`: evaluates the property's variants."""
    res = run_matrix([prop], repo)
    res.extend(run_neutral(prop, repo))
    bad = [r for r in res if r["verdict"] not in GOOD]
    stale = [r for r in res if r["verdict"] == "stale"]
    n_break = sum(1 for r in res if r["kind"] == "break" and r["verdict"] == "fired")
    n_neutral = sum(1 for r in res if r["kind"] == "neutral" and r["verdict"] == "silent")
    OUT = os.environ.get("NUCSVERIF_OUT") or VERIF
    evp = os.path.join(OUT, "evidence", f"{prop}.json")
    try:
        with open(evp) as f:
            ev = json.load(f)
        ev["coverage"]["variant_matrix"] = {
            "rule": "each variant = one single-site edit of the current tree applied to a scratch copy; breaking edits must make "
                    "the check exit 1 naming the edited function, neutral twins must leave it at exit 0; stale = edit site not "
                    "found in the current tree (skipped)",
            "breaking_fired": n_break, "neutral_silent": n_neutral, "stale": len(stale), "mismatches": len(bad),
            "variants": [{k: r.get(k) for k in ("id", "kind", "verdict", "file", "what", "reported", "note") if r.get(k) is not None} for r in res],
        }
        with open(evp, "w") as f:
            json.dump(ev, f, indent=1)
    except OSError:
        pass
    print(f"SELFTEST property={prop} variants={len(res)} breaking_fired={n_break} neutral_silent={n_neutral} stale={len(stale)} mismatches={len(bad)}")
    for r in bad:
        print(f"  selftest mismatch: {r['id']} ({r['kind']}) -> {r['verdict']} {r.get('note', '')} {r.get('reported', '')}")
    if bad:
        print(f"ANALYSIS-ERROR property={prop}: the sensitivity self-test disagrees with the checker on {len(bad)} variant(s) "
              f"(the checker, not the code, needs attention)")
        return 2
    if res and len(stale) * 2 > len(res):
        print(f"ANALYSIS-ERROR property={prop}: more than half of the self-test variants are stale on this tree")
        return 2
    return 0


def main(argv: Optional[List[str]] = None) -> int:
    import argparse

    ap = argparse.ArgumentParser(prog="nucsverif.selftest")
    ap.add_argument("--repo", default=os.environ.get("NUCS_REPO", "/repo"))
    ap.add_argument("--props", nargs="*")
    ap.add_argument("--ids", nargs="*")
    ap.add_argument("--jobs", type=int, default=16)
    a = ap.parse_args(argv)
    res = run_matrix(a.props or None, a.repo, a.ids or None, a.jobs)
    for r in res:
        print(f"{r['verdict']:16s} {r['property']} {r['id']:40s} {r.get('note', '')} {(r.get('reported') or [''])[0][:150]}")
    bad = [r for r in res if r["verdict"] not in GOOD]
    print(f"total={len(res)} bad={len(bad)} stale={sum(1 for r in res if r['verdict'] == 'stale')}")
    return 2 if bad else 0


if __name__ == "__main__":
    sys.exit(main())
