"""Whole-tree, behaviour-preserving rewrites used to test that no check fires (or stops being able to read the code) on a refactoring.
  roundtrip : every file re-printed by ast.unparse (layout, comments, parentheses, string quotes change; line numbers move)
  rename    : every local variable (not parameters, not globals) of every function renamed  v -> v_rn
  params    : every parameter of every njit function renamed  p -> p_rn  (all calls in nucs are positional for njit functions)
  flipcmp   : every two-operand comparison  a < b  written  b > a  (and <=, >, >=; == and != with swapped operands)
  augassign : every  x += e / x -= e / x |= e  on a plain name or subscript written  x = x + e
  ifelse    : every  if c: A else: B  (with an else branch that is not an elif chain) written  if not c: B else: A
  range0    : every  range(n)  written  range(0, n)
  tempret   : every  return <expression>  (not a bare name / constant) written  _ret = <expression>; return _ret
  chain     : every chained comparison  a < b < c  written  a < b and b < c
  commute   : every  a + b  and  a * b  and  a | b  whose operands are side-effect free written  b + a / b * a / b | a
  nestand   : every  if a and b: S  (no else)  written  if a: if b: S
  earlycont : a loop body that ends with  if c: S  (no else)  ends with  if not c: continue; S  instead
  ifexp     : every statement  t = a if c else b  /  return a if c else b  written as an if / else statement
  rangestep : every  range(n) / range(a, b)  written  range(0, n, 1) / range(a, b, 1)
  negcmp    : every two-operand integer comparison in an if / while test  a < b  written  not a >= b  (==  as  not !=, and so on)
  tempcond  : every  if <comparison or and/or>: ...  (not an elif) written  _cN = <test>; if _cN: ...
  nowalrus  : every  while (v := e) is not None: B  written  while True: v = e; if v is None: break; B
  elseafter : every  if c: ...; return/continue/break/raise  (no else) followed by statements S  written  if c: ... else: S
  chainsub  : every read  x[i, j]  whose indices are integer constants, constant names or range-loop variables written  x[i][j]"""
import ast

MODES = ["roundtrip", "rename", "params", "flipcmp", "augassign", "ifelse", "range0", "tempret", "chain", "commute", "nestand", "earlycont", "ifexp", "rangestep", "chainsub", "negcmp", "tempcond", "nowalrus", "elseafter"]

class Renamer(ast.NodeTransformer):
    def __init__(self, mode): self.mode = mode
    def visit_FunctionDef(self, fn):
        params = {a.arg for a in fn.args.args + fn.args.posonlyargs + fn.args.kwonlyargs}
        if fn.args.vararg: params.add(fn.args.vararg.arg)
        if fn.args.kwarg: params.add(fn.args.kwarg.arg)
        stored = {n.id for n in ast.walk(fn) if isinstance(n, ast.Name) and isinstance(n.ctx, ast.Store)}
        glob = {x for n in ast.walk(fn) if isinstance(n, (ast.Global, ast.Nonlocal)) for x in n.names}
        is_njit = any("njit" in ast.unparse(d) for d in fn.decorator_list)
        nested = [n for n in ast.walk(fn) if isinstance(n, (ast.FunctionDef, ast.Lambda)) and n is not fn]
        if self.mode == "rename":
            targets = (stored - params - glob) if not nested else set()
        else:
            kwcalled = False
            targets = (params - {"self", "cls"}) if is_njit else set()
        m = {t: t + "_rn" for t in targets if not t.startswith("__")}
        if m:
            for n in ast.walk(fn):
                if isinstance(n, ast.Name) and n.id in m:
                    n.id = m[n.id]
                if self.mode == "params" and isinstance(n, ast.arg) and n.arg in m:
                    n.arg = m[n.arg]
        return fn

class FlipCmp(ast.NodeTransformer):
    FL = {ast.Lt: ast.Gt, ast.Gt: ast.Lt, ast.LtE: ast.GtE, ast.GtE: ast.LtE, ast.Eq: ast.Eq, ast.NotEq: ast.NotEq}
    def visit_Compare(self, n):
        self.generic_visit(n)
        if len(n.ops) == 1 and type(n.ops[0]) in self.FL and not isinstance(n.left, ast.NamedExpr) and not isinstance(n.comparators[0], ast.Constant):
            return ast.copy_location(ast.Compare(left=n.comparators[0], ops=[self.FL[type(n.ops[0])]()], comparators=[n.left]), n)
        return n

class AugToAssign(ast.NodeTransformer):
    def visit_AugAssign(self, n):
        self.generic_visit(n)
        t = n.target
        simple = isinstance(t, ast.Name) or (isinstance(t, ast.Subscript) and all(isinstance(x, (ast.Name, ast.Constant, ast.Subscript, ast.Tuple, ast.Load, ast.Store, ast.BinOp, ast.Add, ast.Sub, ast.UnaryOp, ast.USub, ast.Attribute)) for x in ast.walk(t)))
        if not simple or not isinstance(n.op, (ast.Add, ast.Sub, ast.BitOr, ast.Mult)):
            return n
        load = ast.parse(ast.unparse(t), mode="eval").body
        return ast.copy_location(ast.Assign(targets=[t], value=ast.BinOp(left=load, op=n.op, right=n.value), lineno=n.lineno), n)

class IfElse(ast.NodeTransformer):
    def visit_If(self, n):
        self.generic_visit(n)
        if n.orelse and not (len(n.orelse) == 1 and isinstance(n.orelse[0], ast.If)) and not any(isinstance(x, ast.NamedExpr) for x in ast.walk(n.test)):
            return ast.copy_location(ast.If(test=ast.UnaryOp(op=ast.Not(), operand=n.test), body=n.orelse, orelse=n.body), n)
        return n

class Range0(ast.NodeTransformer):
    def visit_Call(self, n):
        self.generic_visit(n)
        if isinstance(n.func, ast.Name) and n.func.id == "range" and len(n.args) == 1 and not n.keywords:
            n.args = [ast.Constant(0), n.args[0]]
        return n

class TempRet(ast.NodeTransformer):
    def _block(self, stmts):
        out = []
        for st in stmts:
            st = self.visit(st)
            if isinstance(st, ast.Return) and st.value is not None and not isinstance(st.value, (ast.Name, ast.Constant)):
                out.append(ast.copy_location(ast.Assign(targets=[ast.Name(id="_ret", ctx=ast.Store())], value=st.value, lineno=st.lineno), st))
                out.append(ast.copy_location(ast.Return(value=ast.Name(id="_ret", ctx=ast.Load())), st))
            else:
                out.append(st)
        return out
    def generic_visit(self, node):
        for f in ("body", "orelse", "finalbody"):
            b = getattr(node, f, None)
            if isinstance(b, list) and b and isinstance(b[0], ast.stmt):
                setattr(node, f, self._block(b))
        for h in getattr(node, "handlers", []) or []:
            h.body = self._block(h.body)
        return node
    def visit_Lambda(self, n): return n
    def visit_FunctionDef(self, fn):
        # generators keep their returns (a generator's return value is not an ordinary result)
        if any(isinstance(x, (ast.Yield, ast.YieldFrom)) for x in ast.walk(fn)):
            return fn
        return self.generic_visit(fn)

class Chain(ast.NodeTransformer):
    def visit_Compare(self, n):
        self.generic_visit(n)
        if len(n.ops) == 2 and all(isinstance(x, (ast.Name, ast.Constant, ast.Subscript, ast.Load, ast.Tuple)) for x in ast.walk(n.comparators[0])):
            a, b, c = n.left, n.comparators[0], n.comparators[1]
            b2 = ast.parse(ast.unparse(b), mode="eval").body
            return ast.copy_location(ast.BoolOp(op=ast.And(), values=[ast.Compare(left=a, ops=[n.ops[0]], comparators=[b]), ast.Compare(left=b2, ops=[n.ops[1]], comparators=[c])]), n)
        return n

def _pure(e):
    return all(isinstance(x, (ast.Name, ast.Constant, ast.Subscript, ast.Attribute, ast.BinOp, ast.UnaryOp, ast.Tuple, ast.Slice, ast.Load, ast.operator, ast.unaryop))
               for x in ast.walk(e))

class Commute(ast.NodeTransformer):
    def visit_BinOp(self, n):
        self.generic_visit(n)
        if isinstance(n.op, (ast.Add, ast.Mult, ast.BitOr)) and _pure(n.left) and _pure(n.right) \
                and not any(isinstance(x, ast.Constant) and isinstance(x.value, str) for x in ast.walk(n)) \
                and not any(isinstance(x, (ast.List, ast.Tuple)) for x in (n.left, n.right)):
            return ast.copy_location(ast.BinOp(left=n.right, op=n.op, right=n.left), n)
        return n
    def visit_JoinedStr(self, n): return n

class NestAnd(ast.NodeTransformer):
    def visit_If(self, n):
        self.generic_visit(n)
        if not n.orelse and isinstance(n.test, ast.BoolOp) and isinstance(n.test.op, ast.And) and len(n.test.values) == 2 \
                and not any(isinstance(x, ast.NamedExpr) for x in ast.walk(n.test)):
            inner = ast.copy_location(ast.If(test=n.test.values[1], body=n.body, orelse=[]), n)
            return ast.copy_location(ast.If(test=n.test.values[0], body=[inner], orelse=[]), n)
        return n

class EarlyCont(ast.NodeTransformer):
    def _loop(self, n):
        self.generic_visit(n)
        if n.body and isinstance(n.body[-1], ast.If) and not n.body[-1].orelse and not n.orelse \
                and not any(isinstance(x, ast.NamedExpr) for x in ast.walk(n.body[-1].test)):
            last = n.body[-1]
            guard = ast.copy_location(ast.If(test=ast.UnaryOp(op=ast.Not(), operand=last.test), body=[ast.copy_location(ast.Continue(), last)], orelse=[]), last)
            n.body = n.body[:-1] + [guard] + last.body
        return n
    visit_For = _loop
    visit_While = _loop

class IfExpStmt(ast.NodeTransformer):
    def visit_Assign(self, n):
        if isinstance(n.value, ast.IfExp) and len(n.targets) == 1 and isinstance(n.targets[0], (ast.Name, ast.Subscript, ast.Attribute)):
            t = n.targets[0]
            t2 = ast.parse(ast.unparse(t)).body[0].value
            for x in ast.walk(t2):
                if hasattr(x, "ctx") and x is t2:
                    x.ctx = ast.Store()
            t2.ctx = ast.Store()
            return ast.copy_location(ast.If(test=n.value.test, body=[ast.Assign(targets=[t], value=n.value.body, lineno=n.lineno)],
                                            orelse=[ast.Assign(targets=[t2], value=n.value.orelse, lineno=n.lineno)]), n)
        return n
    def visit_Return(self, n):
        if isinstance(n.value, ast.IfExp):
            return ast.copy_location(ast.If(test=n.value.test, body=[ast.Return(value=n.value.body)], orelse=[ast.Return(value=n.value.orelse)]), n)
        return n

class RangeStep(ast.NodeTransformer):
    def visit_Call(self, n):
        self.generic_visit(n)
        if isinstance(n.func, ast.Name) and n.func.id == "range" and not n.keywords:
            if len(n.args) == 1:
                n.args = [ast.Constant(0), n.args[0], ast.Constant(1)]
            elif len(n.args) == 2:
                n.args = [n.args[0], n.args[1], ast.Constant(1)]
        return n

class ChainSub(ast.NodeTransformer):
    def visit_FunctionDef(self, fn):
        self.loopvars = {x.target.id for x in ast.walk(fn) if isinstance(x, ast.For) and isinstance(x.target, ast.Name)
                         and isinstance(x.iter, ast.Call) and isinstance(x.iter.func, ast.Name) and x.iter.func.id == "range"}
        stored_other = {y.id for x in ast.walk(fn) if isinstance(x, (ast.Assign, ast.AugAssign)) for t in (x.targets if isinstance(x, ast.Assign) else [x.target])
                        for y in ast.walk(t) if isinstance(y, ast.Name) and isinstance(y.ctx, ast.Store)}
        self.loopvars -= stored_other
        self.generic_visit(fn)
        return fn
    def visit_Subscript(self, n):
        self.generic_visit(n)
        if isinstance(n.ctx, ast.Load) and isinstance(n.value, ast.Name) and isinstance(n.slice, ast.Tuple) and len(n.slice.elts) >= 2 and hasattr(self, "loopvars"):
            ok = all((isinstance(e, ast.Constant) and type(e.value) is int) or (isinstance(e, ast.Name) and (e.id.isupper() or e.id in self.loopvars)) for e in n.slice.elts)
            if ok:
                cur = n.value
                for e in n.slice.elts:
                    cur = ast.Subscript(value=cur, slice=e, ctx=ast.Load())
                return ast.copy_location(cur, n)
        return n

class NegCmp(ast.NodeTransformer):
    NG = {ast.Lt: ast.GtE, ast.Gt: ast.LtE, ast.LtE: ast.Gt, ast.GtE: ast.Lt, ast.Eq: ast.NotEq, ast.NotEq: ast.Eq}
    def _neg(self, t):
        if isinstance(t, ast.Compare) and len(t.ops) == 1 and type(t.ops[0]) in self.NG and not any(isinstance(x, (ast.NamedExpr, ast.Constant)) and (isinstance(x, ast.NamedExpr) or x.value is None) for x in ast.walk(t)):
            return ast.UnaryOp(op=ast.Not(), operand=ast.Compare(left=t.left, ops=[self.NG[type(t.ops[0])]()], comparators=t.comparators))
        return t
    def visit_If(self, n):
        self.generic_visit(n)
        n.test = self._neg(n.test)
        return n
    def visit_While(self, n):
        self.generic_visit(n)
        n.test = self._neg(n.test)
        return n

class TempCond(ast.NodeTransformer):
    def __init__(self): self.k = 0
    def _block(self, stmts):
        out = []
        for st in stmts:
            st = self.visit(st)
            if isinstance(st, ast.If) and isinstance(st.test, (ast.Compare, ast.BoolOp)) and not any(isinstance(x, ast.NamedExpr) for x in ast.walk(st.test)):
                self.k += 1
                nm = f"_c{self.k}"
                out.append(ast.copy_location(ast.Assign(targets=[ast.Name(nm, ast.Store())], value=st.test, lineno=st.lineno), st))
                st.test = ast.Name(nm, ast.Load())
            out.append(st)
        return out
    def generic_visit(self, node):
        for fld in ("body", "orelse", "finalbody"):
            v = getattr(node, fld, None)
            if isinstance(v, list) and v and isinstance(v[0], ast.stmt):
                # an elif chain (orelse == [If]) is left alone: hoisting its test would evaluate it before the first test
                if fld == "orelse" and isinstance(node, ast.If) and len(v) == 1 and isinstance(v[0], ast.If):
                    v[0] = self.visit(v[0])
                    continue
                setattr(node, fld, self._block(v))
        for h in getattr(node, "handlers", []) or []:
            h.body = self._block(h.body)
        return node

class NoWalrus(ast.NodeTransformer):
    def visit_While(self, n):
        self.generic_visit(n)
        t = n.test
        if isinstance(t, ast.Compare) and len(t.ops) == 1 and isinstance(t.ops[0], ast.IsNot) and isinstance(t.left, ast.NamedExpr) \
                and isinstance(t.comparators[0], ast.Constant) and t.comparators[0].value is None and not n.orelse:
            v = t.left.target
            pre = [ast.copy_location(ast.Assign(targets=[ast.Name(v.id, ast.Store())], value=t.left.value, lineno=n.lineno), n),
                   ast.copy_location(ast.If(test=ast.Compare(left=ast.Name(v.id, ast.Load()), ops=[ast.Is()], comparators=[ast.Constant(None)]), body=[ast.Break()], orelse=[]), n)]
            return ast.copy_location(ast.While(test=ast.Constant(True), body=pre + n.body, orelse=[]), n)
        return n

class ElseAfter(ast.NodeTransformer):
    def _block(self, stmts):
        out = []
        for k, st in enumerate(stmts):
            if isinstance(st, ast.If) and not st.orelse and st.body and isinstance(st.body[-1], (ast.Return, ast.Continue, ast.Break, ast.Raise)) and k + 1 < len(stmts):
                st.orelse = self._block(stmts[k + 1:])
                out.append(st)
                return out
            out.append(st)
        return out
    def generic_visit(self, node):
        super().generic_visit(node)
        for fld in ("body", "orelse", "finalbody"):
            v = getattr(node, fld, None)
            if isinstance(v, list) and v and isinstance(v[0], ast.stmt):
                setattr(node, fld, self._block(v))
        return node

def transform(src, mode):
    tree = ast.parse(src)
    if mode in ("rename", "params"):
        tree = Renamer(mode).visit(tree)
    elif mode == "flipcmp":
        tree = FlipCmp().visit(tree)
    elif mode == "augassign":
        tree = AugToAssign().visit(tree)
    elif mode == "ifelse":
        tree = IfElse().visit(tree)
    elif mode == "range0":
        tree = Range0().visit(tree)
    elif mode == "tempret":
        tree = TempRet().visit(tree)
    elif mode == "chain":
        tree = Chain().visit(tree)
    elif mode == "commute":
        tree = Commute().visit(tree)
    elif mode == "nestand":
        tree = NestAnd().visit(tree)
    elif mode == "earlycont":
        tree = EarlyCont().visit(tree)
    elif mode == "ifexp":
        tree = IfExpStmt().visit(tree)
    elif mode == "rangestep":
        tree = RangeStep().visit(tree)
    elif mode == "chainsub":
        tree = ChainSub().visit(tree)
    elif mode == "nowalrus":
        tree = NoWalrus().visit(tree)
    elif mode == "elseafter":
        tree = ElseAfter().visit(tree)
    elif mode == "negcmp":
        tree = NegCmp().visit(tree)
    elif mode == "tempcond":
        tree = TempCond().visit(tree)
    ast.fix_missing_locations(tree)
    return ast.unparse(tree) + "\n"

