import numpy as np, sys
from nucs.problems.problem import Problem
from nucs.propagators.propagators import *
from nucs.solvers.backtrack_solver import BacktrackSolver
from nucs.heuristics.heuristics import *
from nucs.constants import *
# C01: 2x+2y=3
p = Problem([(0,1),(0,1)]); p.add_propagator(([0,1], ALG_AFFINE_EQ, [2,2,3]))
s = BacktrackSolver(p, log_level="ERROR"); print("C01 2x+2y=3:", [x.tolist() for x in s.find_all()])
# C05: max_eq
d = np.array([[0,5],[0,3],[2,5]], dtype=np.int32)
print("C05 max_eq:", COMPUTE_DOMAINS_FCTS[ALG_MAX_EQ](d, np.array([],dtype=np.int32)), d.tolist())
# C12 split k > size
p = Problem([(0,1),(0,1)]); print("C12 split 3:", [q.shr_domains_lst for q in p.split(3,0)])
# C09 split_low + no_sub_cycle
from nucs.problems.circuit_problem import CircuitProblem
for h in (DOM_HEURISTIC_MIN_VALUE, DOM_HEURISTIC_SPLIT_LOW):
    p = CircuitProblem(4)
    s = BacktrackSolver(p, dom_heuristic_idx=h, log_level="ERROR")
    sols=[x.tolist() for x in s.find_all()]
    print("C09 circuit4 heuristic",h, len(sols), sols)
