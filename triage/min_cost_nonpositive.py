# min_cost_dom_heuristic with no positive cost in the chosen domain: the 'nothing chosen' value -1 is branched on and find_all() never returns
import sys, signal
from nucs.problems.problem import Problem
from nucs.solvers.backtrack_solver import BacktrackSolver
from nucs.propagators.propagators import ALG_ALLDIFFERENT
from nucs.heuristics.heuristics import DOM_HEURISTIC_MIN_COST
def h(*a): print("TIMEOUT: find_all() did not return within 40 s"); sys.exit(1)
signal.signal(signal.SIGALRM, h); signal.alarm(40)
p = Problem([(0, 3)] * 3); p.add_propagator(([0, 1, 2], ALG_ALLDIFFERENT, []))
costs = [[0, 0, 0, 0]] * 3
try:
    s = BacktrackSolver(p, dom_heuristic_idx=DOM_HEURISTIC_MIN_COST, dom_heuristic_params=costs)
    n = len(list(s.solve()))
except Exception as e:
    print("EXC", type(e).__name__, e); sys.exit(1)
print("solutions", n); sys.exit(0 if n == 24 else 1)
