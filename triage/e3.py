import numpy as np, sys, itertools, signal
from nucs.problems.problem import Problem
from nucs.propagators.propagators import *
from nucs.solvers.backtrack_solver import BacktrackSolver
from nucs.heuristics.heuristics import *
class TO(Exception): pass
def h(*a): raise TO()
signal.signal(signal.SIGALRM, h)
def guarded(name, f, t=10):
    signal.alarm(t)
    try: print(name, "->", f())
    except TO: print(name, "-> TIMEOUT (no termination within %ds)"%t)
    except Exception as e: print(name, "-> EXC", type(e).__name__, e)
    finally: signal.alarm(0)
# C03: objective not watched by anything
def c03a():
    p=Problem([(0,3),(0,3)]); s=BacktrackSolver(p,log_level="ERROR"); r=s.minimize(0); return None if r is None else r.tolist()
guarded("C03 minimize free var", c03a)
def c03b():
    p=Problem([(0,3),(0,3)]); p.add_propagator(([0,1],ALG_AFFINE_LEQ,[1,-1,0])); s=BacktrackSolver(p,log_level="ERROR"); r=s.minimize(0); return None if r is None else r.tolist()
guarded("C03 minimize x<=y x", c03b)
def c03c():
    p=Problem([(0,3),(0,3)]); p.add_propagator(([0,1],ALG_ALLDIFFERENT,[])); s=BacktrackSolver(p,log_level="ERROR"); r=s.minimize(0); return None if r is None else r.tolist()
guarded("C03 minimize alldiff x", c03c)
# C04: two no_sub_cycle on common var
def c04a():
    p=Problem([(1,1),(0,2),(0,2)]); p.add_propagator(([0,1,2],ALG_NO_SUB_CYCLE,[])); p.add_propagator(([0,1,2],ALG_NO_SUB_CYCLE,[])); s=BacktrackSolver(p,log_level="ERROR"); return len(s.find_all())
guarded("C04 two no_sub_cycle", c04a)
def c04b():
    p=Problem([(0,1),(0,1),(0,1)]); p.add_propagator(([0,1,2],ALG_GCC,[0,0,0,1,1])); s=BacktrackSolver(p,log_level="ERROR"); return len(s.find_all())
guarded("C04 gcc cap<n", c04b)
# C19
def c19():
    p=Problem([(0,1)]*300); s=BacktrackSolver(p,stack_max_height=512,log_level="ERROR"); r=next(iter(s.solve())); return r.tolist()[:5], int(r.sum()), s.get_statistics()['SOLVER_CHOICE_DEPTH']
guarded("C19 300 bools height 512", c19, 60)
def c19b():
    p=Problem([(0,1)]*200); s=BacktrackSolver(p,stack_max_height=128,log_level="ERROR"); r=next(iter(s.solve())); return r.tolist()[:5], int(r.sum())
guarded("C19 200 bools height 128", c19b, 60)
