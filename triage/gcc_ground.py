import numpy as np, sys, itertools, random, importlib.util
def load(path, name):
    spec=importlib.util.spec_from_file_location(name, path+"/nucs/propagators/gcc_propagator.py"); m=importlib.util.module_from_spec(spec); spec.loader.exec_module(m); return m
class TO(Exception): pass
def path_set(t, start, end, value):
    k=0
    while (p := start) != end:
        start = t[p]; t[p] = value; k+=1
        if k>300: raise TO()
def pm(t,i):
    k=0
    while t[i] > i:
        i=t[i]; k+=1
        if k>300: raise TO()
    return i
def pmi(t,i):
    k=0
    while t[i] < i:
        i=t[i]; k+=1
        if k>300: raise TO()
    return i
g=load(sys.argv[1],"g"); g.path_set=path_set; g.path_max=pm; g.path_min=pmi
random.seed(int(sys.argv[2])); bad=[];tot=0;hang=0
for it in range(int(sys.argv[3])):
    n=random.randint(1,4); m=random.randint(1,4); v0=random.randint(-1,1)
    lb=[random.choice([0,0,0,1]) for _ in range(m)]; ub=[max(l,random.choice([0,0,1,1,2,3])) for l in lb]
    p=np.array([v0]+lb+ub,dtype=np.int32)
    for t in itertools.product(range(v0,v0+m),repeat=n):
        d=np.array([(x,x) for x in t],dtype=np.int32)
        okc=all(lb[j] <= sum(1 for x in t if x==v0+j) <= ub[j] for j in range(m))
        tot+=1
        try: r=g.compute_domains_gcc(d,p)
        except TO: hang+=1; continue
        if (r!=0)!=okc: bad.append((t,list(map(int,p)),int(r),okc))
print(sys.argv[1],"ground cases",tot,"hang",hang,"bad",len(bad),bad[:4])
