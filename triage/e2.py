import numpy as np, sys, itertools
from nucs.problems.problem import Problem
from nucs.propagators.propagators import *
from nucs.solvers.backtrack_solver import BacktrackSolver
from nucs.heuristics.heuristics import *
def sols(doms, h, props):
    p = Problem(list(doms))
    for pr in props: p.add_propagator(pr)
    s = BacktrackSolver(p, dom_heuristic_idx=h, log_level="ERROR")
    return sorted(x.tolist() for x in s.find_all())
n=3
found=0
for doms in itertools.product([(0,1),(1,2),(0,2),(0,0),(1,1),(2,2)], repeat=n):
    props=[(list(range(n)), ALG_NO_SUB_CYCLE, [])]
    a=sols(doms, DOM_HEURISTIC_MIN_VALUE, props); b=sols(doms, DOM_HEURISTIC_SPLIT_LOW, props)
    if a!=b:
        print(doms, "min_value:",a, "split_low:", b); found+=1
        if found>3: break
