# compare HEAD (/repo) vs candidate (/tmp/gccwt) on random cases, with loop caps
import numpy as np, sys, itertools, random, importlib.util
def load(path, name):
    spec=importlib.util.spec_from_file_location(name, path+"/nucs/propagators/gcc_propagator.py"); m=importlib.util.module_from_spec(spec); spec.loader.exec_module(m); return m
class TO(Exception): pass
def path_set(t, start, end, value):
    k=0
    while (p := start) != end:
        start = t[p]; t[p] = value; k+=1
        if k>300: raise TO()
def pm(t,i):
    k=0
    while t[i] > i:
        i=t[i]; k+=1
        if k>300: raise TO()
    return i
def pmi(t,i):
    k=0
    while t[i] < i:
        i=t[i]; k+=1
        if k>300: raise TO()
    return i
A=load("/tmp/gccwt","gA"); B=load(sys.argv[4],"gB")
for g in (A,B): g.path_set=path_set; g.path_max=pm; g.path_min=pmi
random.seed(int(sys.argv[2])); N=int(sys.argv[1]); MX=int(sys.argv[3]) if len(sys.argv)>3 else 5
st=dict(same=0,hangA=0,hangB=0,lostB=0,wfB=0,diff=0,weaker=0,stronger=0,idxB=0)
ex=[]
def run(g,doms,p):
    d=np.array(doms,dtype=np.int32)
    try: r=g.compute_domains_gcc(d,p)
    except TO: return 'HANG',None
    except IndexError: return 'IDX',None
    return int(r),d
for it in range(N):
    n=random.randint(1,MX); m=random.randint(1,MX); v0=random.randint(-1,1)
    lb=[random.choice([0,0,0,1]) for _ in range(m)]; ub=[max(l,random.choice([0,0,1,1,2,3])) for l in lb]
    doms=[]
    for i in range(n):
        a=random.randint(v0,v0+m-1); b=random.randint(a,v0+m-1); doms.append((a,b))
    sols=[t for t in itertools.product(*[range(a,b+1) for a,b in doms]) if all(lb[j] <= sum(1 for x in t if x==v0+j) <= ub[j] for j in range(m))]
    p=np.array([v0]+lb+ub,dtype=np.int32)
    ra,da=run(A,doms,p); rb,db=run(B,doms,p)
    if ra=='HANG': st['hangA']+=1
    if rb=='HANG': st['hangB']+=1; ex.append(('hangB',doms,list(p))); continue
    if rb=='IDX': st['idxB']+=1; ex.append(('idxB',doms,list(p))); continue
    if rb==0:
        if sols: st['wfB']+=1; ex.append(('wfB',doms,list(p)))
    else:
        if [t for t in sols if not all(db[i,0]<=t[i]<=db[i,1] for i in range(n))]: st['lostB']+=1; ex.append(('lostB',doms,list(p)))
    if ra in ('HANG','IDX'): continue
    if ra==rb and (ra==0 or (da==db).all()): st['same']+=1
    else:
        st['diff']+=1
        if ra!=0 and rb==0: st['stronger']+=1
        elif ra==0 and rb!=0: st['weaker']+=1; ex.append(('weaker',doms,list(p),len(sols)))
        else:
            w=((db[:,0]<da[:,0])|(db[:,1]>da[:,1])).any()
            st['weaker' if w else 'stronger']+=1
            if w: ex.append(('weaker',doms,list(p),da.tolist(),db.tolist()))
print(st)
for e in ex[:6]: print(e)
