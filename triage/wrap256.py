import numpy as np
from nucs.problems.problem import Problem
from nucs.solvers.backtrack_solver import BacktrackSolver
p = Problem([(0,1)]*300)
s = BacktrackSolver(p, stack_max_height=256)
try:
    sol = next(iter(s.solve()))
    print("NO ERROR: first solution found, top =", int(s.stacks_top[0]))
except IndexError as e:
    print("IndexError:", e)
except Exception as e:
    print(type(e).__name__, e)
