import numpy as np, itertools, random, signal, sys
from nucs.propagators.gcc_propagator import compute_domains_gcc
from nucs.constants import PROP_INCONSISTENCY
class TO(Exception): pass
def h(*a): raise TO()
signal.signal(signal.SIGALRM, h)
random.seed(int(sys.argv[1]) if len(sys.argv)>1 else 0)
N=int(sys.argv[2]) if len(sys.argv)>2 else 3000
compute_domains_gcc(np.array([(0,1),(0,1)],dtype=np.int32), np.array([0,0,0,1,1],dtype=np.int32))
hang=lost=wrongfail=ok=0
ex=[]
for it in range(N):
    n=random.randint(1,4); m=random.randint(1,4); v0=random.randint(-1,2)
    lb=[random.randint(0,1) for _ in range(m)]; ub=[random.randint(l,3) if random.random()<0.8 else max(l,0) for l in lb]
    if random.random()<0.5: ub[random.randrange(m)] = lb[0]*0
    for j in range(m): ub[j]=max(ub[j],lb[j])
    doms=[]
    for i in range(n):
        a=random.randint(v0,v0+m-1); b=random.randint(a,v0+m-1); doms.append((a,b))
    sols=[t for t in itertools.product(*[range(a,b+1) for a,b in doms]) if all(lb[j] <= sum(1 for x in t if x==v0+j) <= ub[j] for j in range(m))]
    d=np.array(doms,dtype=np.int32); p=np.array([v0]+lb+ub,dtype=np.int32)
    signal.alarm(3)
    try:
        st=compute_domains_gcc(d,p)
    except TO:
        hang+=1; ex.append(('hang',doms,[v0]+lb+ub)); continue
    finally:
        signal.alarm(0)
    if st==PROP_INCONSISTENCY:
        if sols: wrongfail+=1; ex.append(('wrongfail',doms,[v0]+lb+ub))
        else: ok+=1
    else:
        bad=[t for t in sols if not all(d[i,0]<=t[i]<=d[i,1] for i in range(n))]
        if bad: lost+=1; ex.append(('lost',doms,[v0]+lb+ub,d.tolist(),bad[0]))
        else: ok+=1
print(f"N={N} ok={ok} hang={hang} lost={lost} wrongfail={wrongfail}")
for e in ex[:6]: print(e)
