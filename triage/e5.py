import numpy as np, signal
from nucs.problems.problem import Problem
from nucs.propagators.propagators import *
from nucs.solvers.backtrack_solver import BacktrackSolver
from nucs.heuristics.heuristics import *
class TO(Exception): pass
def h(*a): raise TO()
signal.signal(signal.SIGALRM, h)
costs=[[1,1,1],[1,1,1],[1,1,1]]
p=Problem([(0,2)]*3); p.add_propagator(([0,1,2],ALG_ALLDIFFERENT,[]))
s=BacktrackSolver(p,var_heuristic_idx=VAR_HEURISTIC_MAX_REGRET,var_heuristic_params=costs,dom_heuristic_idx=DOM_HEURISTIC_MIN_COST,dom_heuristic_params=costs,log_level="ERROR")
signal.alarm(20)
try: print("max_regret equal costs:", [x.tolist() for x in s.find_all()])
except TO: print("TIMEOUT")
except Exception as e: print("EXC", type(e).__name__, e)
