import itertools
from nucs.problems.problem import Problem
from nucs.solvers.backtrack_solver import BacktrackSolver
from nucs.propagators.propagators import ALG_MAX_EQ, ALG_MIN_EQ
for alg,f in ((ALG_MAX_EQ,max),(ALG_MIN_EQ,min)):
    doms=[(0,5),(0,3),(2,5)]
    p=Problem(doms); p.add_propagator(([0,1,2],alg,[]))
    s=BacktrackSolver(p); sols=sorted(tuple(int(v) for v in x) for x in s.solve())
    bf=sorted(t for t in itertools.product(*[range(a,b+1) for a,b in doms]) if f(t[:-1])==t[-1])
    print(alg, len(sols), len(bf), [t for t in bf if t not in sols][:10])
