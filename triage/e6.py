import numpy as np
from numba import njit, int64, types
from nucs.numba_helper import function_from_address, build_function_address_list
SIG = int64(int64[:], int64)
T = types.FunctionType(SIG)
@njit(cache=False)
def push(a, i):
    if i + 1 >= len(a):
        raise IndexError("choice point stack overflow")
    a[i+1] = a[i]
    return i + 1
@njit(cache=False)
def driver(a, addrs):
    f = function_from_address(T, addrs[0])
    top = 0
    for _ in range(10):
        top = f(a, top)
    return top
addrs = np.array(build_function_address_list([push], SIG))
a = np.zeros(4, dtype=np.int64)
try:
    print("result", driver(a, addrs))
except Exception as e:
    print("propagated:", type(e).__name__, e)
