import itertools
from nucs.problems.problem import Problem
from nucs.solvers.backtrack_solver import BacktrackSolver
from nucs.propagators.propagators import ALG_AFFINE_LEQ
bad = 0
# the same model written two ways: 3 variables on 2 shared domains (v2 = v0 + 1), one extra variable v3 in [0,1], v0 + v3 <= 2, v2 + v3 <= 3
def sols(p): return sorted(tuple(int(x) for x in s) for s in BacktrackSolver(p).solve())
p1 = Problem([(0, 2), (0, 2)], [0, 1, 0], [0, 0, 1]); v3 = p1.add_variable((0, 1))
p1.add_propagator(([0, v3], ALG_AFFINE_LEQ, [1, 1, 2])); p1.add_propagator(([2, v3], ALG_AFFINE_LEQ, [1, 1, 3]))
p2 = Problem([(0, 2), (0, 2), (0, 1)], [0, 1, 0, 2], [0, 0, 1, 0])
p2.add_propagator(([0, 3], ALG_AFFINE_LEQ, [1, 1, 2])); p2.add_propagator(([2, 3], ALG_AFFINE_LEQ, [1, 1, 3]))
bf = sorted((a, b, a + 1, c) for a in range(3) for b in range(3) for c in range(2) if a + c <= 2 and a + 1 + c <= 3)
try:
    s1 = sols(p1)
except Exception as e:
    s1 = f"{type(e).__name__}: {e}"
s2 = sols(p2)
print("add_variable returned", v3, "| incremental:", s1 if isinstance(s1, str) else len(s1), "| constructor:", len(s2), "| brute force:", len(bf))
raise SystemExit(0 if s1 == s2 == bf else 1)
