import numpy as np, signal, sys, itertools, random
import nucs.propagators.gcc_propagator as g
class TO(Exception): pass
def path_set(t, start, end, value):
    k=0
    while (p := start) != end:
        start = t[p]; t[p] = value; k+=1
        if k>200: raise TO()
g.path_set = path_set
def pm(t,i):
    k=0
    while t[i] > i:
        i=t[i]; k+=1
        if k>200: raise TO()
    return i
def pmi(t,i):
    k=0
    while t[i] < i:
        i=t[i]; k+=1
        if k>200: raise TO()
    return i
g.path_max=pm; g.path_min=pmi
from nucs.constants import PROP_INCONSISTENCY
random.seed(int(sys.argv[2]))
hang=[];lost=0;wf=0;ok=0
for it in range(int(sys.argv[1])):
    n=random.randint(1,5); m=random.randint(1,5); v0=random.randint(-1,1)
    lb=[random.choice([0,0,0,1]) for _ in range(m)]; ub=[max(l,random.choice([0,0,1,1,2,3])) for l in lb]
    doms=[]
    for i in range(n):
        a=random.randint(v0,v0+m-1); b=random.randint(a,v0+m-1); doms.append((a,b))
    sols=[t for t in itertools.product(*[range(a,b+1) for a,b in doms]) if all(lb[j] <= sum(1 for x in t if x==v0+j) <= ub[j] for j in range(m))]
    d=np.array(doms,dtype=np.int32); p=np.array([v0]+lb+ub,dtype=np.int32)
    try:
        st=g.compute_domains_gcc(d,p)
    except TO:
        hang.append((doms,[v0]+lb+ub,len(sols))); continue
    except IndexError as e:
        hang.append(('IDX',doms,[v0]+lb+ub,len(sols))); continue
    if st==PROP_INCONSISTENCY:
        if sols: wf+=1
        else: ok+=1
    else:
        if [t for t in sols if not all(d[i,0]<=t[i]<=d[i,1] for i in range(n))]: lost+=1
        else: ok+=1
tot=lambda h:(sum(h[1][1+(len(h[1])-1)//2:]), len(h[0]))
print("hang cap-vs-n:", [tot(h) for h in hang if h[0]!="IDX"][:20])
print(f"ok={ok} hang={len(hang)} lost={lost} wrongfail={wf}")
feas=[h for h in hang if h[-1]>0]
print("hangs with feasible problem:", len(feas), feas[:3])
for h in hang[:8]: print(h)
