import numpy as np, signal, sys
from nucs.propagators.gcc_propagator import compute_domains_gcc
def h(*a):
    import traceback; traceback.print_stack(a[1]); sys.exit(3)
signal.signal(signal.SIGALRM, h); signal.alarm(20)
d = np.array([(2,2),(3,4),(3,4),(3,3),(2,4)], dtype=np.int32)
p = np.array([2, 0,0,1, 1,0,3], dtype=np.int32)
print(compute_domains_gcc(d, p), d.tolist())
