import numpy as np, itertools, signal
from nucs.problems.problem import Problem
from nucs.propagators.propagators import *
from nucs.solvers.backtrack_solver import BacktrackSolver
from nucs.heuristics.heuristics import *
from nucs.constants import *
class TO(Exception): pass
def h(*a): raise TO()
signal.signal(signal.SIGALRM, h)
def brute(doms, idx, off, cons):
    out=[]
    for t in itertools.product(*[range(a,b+1) for a,b in doms]):
        v=[t[idx[i]]+off[i] for i in range(len(idx))]
        if all(c(v) for c in cons): out.append(v)
    return sorted(out)
def solve(doms, idx, off, props, **kw):
    p=Problem(list(doms), list(idx), list(off))
    for pr in props: p.add_propagator(pr)
    s=BacktrackSolver(p, log_level="ERROR", **kw)
    signal.alarm(20)
    try: return sorted(x.tolist() for x in s.find_all())
    except TO: return "TIMEOUT"
    finally: signal.alarm(0)
# (1) trigger overwrite: vars v0(dom0,+0) v1(dom1) v2(dom0,+off); a.x <= b with coefficient signs differing on the two views of dom0
import random
random.seed(1)
bad=0
for trial in range(3000):
    d0=(random.randint(-2,1),)*1; a=random.randint(-2,2); b=a+random.randint(0,3)
    c=random.randint(-2,2); d=c+random.randint(0,3)
    doms=[(a,b),(c,d)]; idx=[0,1,0]; off=[0,0,random.randint(-3,3)]
    co=[random.randint(-3,3) for _ in range(3)]; rhs=random.randint(-6,6)
    alg=random.choice([ALG_AFFINE_LEQ,ALG_AFFINE_GEQ,ALG_AFFINE_EQ])
    f={ALG_AFFINE_LEQ:lambda v:sum(x*y for x,y in zip(co,v))<=rhs, ALG_AFFINE_GEQ:lambda v:sum(x*y for x,y in zip(co,v))>=rhs, ALG_AFFINE_EQ:lambda v:sum(x*y for x,y in zip(co,v))==rhs}[alg]
    for hh in (DOM_HEURISTIC_MIN_VALUE, DOM_HEURISTIC_MAX_VALUE):
        got=solve(doms,idx,off,[([0,1,2],alg,co+[rhs])], dom_heuristic_idx=hh)
        exp=brute(doms,idx,off,[f])
        if got!=exp:
            bad+=1
            if any(co): print("MISMATCH alg",alg,"doms",doms,"off",off,"co",co,"rhs",rhs,"heur",hh,"\n  got",got,"\n  exp",exp)
print("shared-domain-in-one-constraint mismatches:",bad)
