import itertools, random, numpy as np
import nucs.propagators.max_eq_propagator as mx, nucs.propagators.min_eq_propagator as mn
import nucs; print(nucs.__file__)
random.seed(1)
for name,fn,f in (("max_eq",mx.compute_domains_max_eq,max),("min_eq",mn.compute_domains_min_eq,min)):
    lost=0; tot=0; ex=None
    for _ in range(20000):
        n=random.randint(2,4)
        doms=[]
        for i in range(n):
            a=random.randint(0,5); b=random.randint(a,6); doms.append((a,b))
        d=np.array(doms,dtype=np.int32)
        r=fn(d,np.array([],dtype=np.int32))
        sols=[t for t in itertools.product(*[range(a,b+1) for a,b in doms]) if f(t[:-1])==t[-1]]
        tot+=1
        if r==0:
            if sols: lost+=1; ex=ex or (doms,'wrong failure')
        else:
            bad=[t for t in sols if not all(d[i,0]<=t[i]<=d[i,1] for i in range(n))]
            if bad: lost+=1; ex=ex or (doms,d.tolist(),bad[:2])
    print(name,tot,lost,ex)
