import Mathlib

/-- The arithmetic fact behind R-SPLIT `covers-domain`: distributing `s = k*q + r` values over `k` parts by giving `q + 1` values to the
first `r` parts and `q` to the others uses exactly `s` values.  (`q = s / k`, `r = s % k < k`.) -/
theorem split_sizes (k q r : ℕ) (h : r ≤ k) :
    ∑ i ∈ Finset.range k, (q + if i < r then 1 else 0) = k * q + r := by
  rw [Finset.sum_add_distrib, Finset.sum_const, Finset.card_range, smul_eq_mul]
  congr 1
  rw [Finset.sum_ite, Finset.sum_const_zero, add_zero, Finset.sum_const, smul_eq_mul, mul_one]
  have : (Finset.filter (fun i => i < r) (Finset.range k)) = Finset.range r := by
    ext i
    simp only [Finset.mem_filter, Finset.mem_range]
    omega
  rw [this, Finset.card_range]

/-- Instantiated with the quotient and remainder of the domain size. -/
theorem split_covers (s k : ℕ) (hk : 0 < k) :
    ∑ i ∈ Finset.range k, (s / k + if i < s % k then 1 else 0) = s := by
  rw [split_sizes k (s / k) (s % k) (Nat.le_of_lt (Nat.mod_lt s hk))]
  exact Nat.div_add_mod s k
