#!/bin/bash
# usage: [SEEDDIR=/tmp/seedout] [TAG=s] confirm_batch.sh <PROP> ...   -- confirms $SEEDDIR/<PROP>/m{1..4} as seeds <PROP>-<TAG><k> (sequentially)
SEEDDIR=${SEEDDIR:-/tmp/seedout}; TAG=${TAG:-s}
for p in "$@"; do
  for m in 1 2 3 4; do
    d=$SEEDDIR/$p/m$m
    [ -f $d/patch.diff ] || continue
    /verif/tools/confirm_seed.sh $d $p-$TAG$m 2>&1 | grep -v "^WARNING" | tail -4
  done
done
