#!/bin/bash
# usage: confirm_batch.sh <PROP> ...   -- confirms /tmp/seedout/<PROP>/m{1,2,3} as seeds <PROP>-s<k> (sequentially)
for p in "$@"; do
  for m in 1 2 3; do
    d=/tmp/seedout/$p/m$m
    [ -f $d/patch.diff ] || continue
    /verif/tools/confirm_seed.sh $d $p-s$m 2>&1 | grep -v "^WARNING" | tail -4
  done
done
