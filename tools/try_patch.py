#!/usr/bin/env python3
"""Applies a patch to a scratch copy of /repo's working tree (never to /repo itself), runs the quick checks on the copy, prints which fire.
usage: try_patch.py <patch.diff> [props...]"""
import os, shutil, subprocess, sys, tempfile
from concurrent.futures import ThreadPoolExecutor
VERIF = os.path.dirname(os.path.dirname(os.path.abspath(__file__)))
ALL = ["C01", "C02", "C03", "C04", "C07", "C08", "C09", "C10", "C11", "C12", "C13", "C15", "C16", "C17", "C18", "C19"]
patch = os.path.abspath(sys.argv[1])
props = sys.argv[2:] or ALL
tmp = tempfile.mkdtemp(prefix="nucsverif-try-")
try:
    for sub in ("nucs", "tests"):
        shutil.copytree(os.path.join("/repo", sub), os.path.join(tmp, sub), ignore=shutil.ignore_patterns("__pycache__", "*.nbi", "*.nbc"))
    if subprocess.run(["git", "apply", patch], cwd=tmp).returncode != 0:
        print("PATCH-FAILS"); sys.exit(2)
    def one(p):
        env = dict(os.environ, NUCSVERIF_OUT=os.path.join(tmp, "out", p), PYTHONPATH=VERIF)
        r = subprocess.run([sys.executable, "-m", "nucsverif", "check", p, "--repo", tmp], cwd=VERIF, env=env, capture_output=True, text=True)
        return p, r.returncode, r.stdout
    with ThreadPoolExecutor(8) as ex:
        res = list(ex.map(one, props))
    for p, rc, out in res:
        if rc != 0:
            lines = [l.strip()[:300] for l in out.splitlines() if l.startswith("  ") or "ANALYSIS-ERROR" in l]
            print(f"--- {p} rc={rc}: " + " | ".join(lines[:3]))
    print("FIRED:", " ".join(f"{p}({rc})" for p, rc, _ in res if rc != 0) or "none")
finally:
    shutil.rmtree(tmp, ignore_errors=True)
