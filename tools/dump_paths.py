#!/usr/bin/env python3
"""Debug helper: dump the abstract paths of a function.  usage: dump_paths.py <module suffix> <qualname> [repo]"""
import sys, os
sys.path.insert(0, os.path.dirname(os.path.dirname(os.path.abspath(__file__))))
from nucsverif.program import Program
from nucsverif.interp import Interp, View
from nucsverif.terms import show_val, show_cond
repo = sys.argv[3] if len(sys.argv) > 3 else "/repo"
prog = Program(repo)
fn = prog.func(f"nucs.{sys.argv[1]}", sys.argv[2])
it = Interp(prog)
res = it.run(fn)
def dump(events, ind=0, seen=()):
    for e in events:
        pad = " " * ind
        if e.kind == "store":
            print(f"{pad}store {View(e.root, e.idx)!r} = {show_val(e.value) if not isinstance(e.value, View) else e.value!r} old={show_val(e.old) if e.old is not None else None} aug={e.aug} L{e.line}")
        elif e.kind in ("call", "icall", "mcall", "enter"):
            print(f"{pad}{e.kind} {e.name} args={[repr(a) if isinstance(a, View) else show_val(a) if hasattr(a,'t') else repr(a) for a in e.args]} ret={e.ret!r} L{e.line}")
        elif e.kind in ("iter", "loop"):
            l = e.loop
            print(f"{pad}{e.kind} loop#{l.loop_id} {l.kind} index={show_val(l.index) if l.index is not None else None} iter={l.iter_value!r} paths={len(l.paths)} L{e.line}")
            if l.loop_id in seen:
                continue
            for i, bp in enumerate(l.paths):
                print(f"{pad}  -- body path {i}: {bp.outcome} facts={[show_cond(c) for c in bp.state.facts.conds[-6:]]}")
                dump(bp.events, ind + 6, seen + (l.loop_id,))
        elif e.kind == "return":
            print(f"{pad}return {show_val(e.value) if hasattr(e.value,'t') else e.value!r} L{e.line}")
        else:
            print(f"{pad}{e.kind} {e.name or ''} L{e.line}")
for i, r in enumerate(res):
    print(f"=== path {i}: {r.outcome} value={show_val(r.value) if hasattr(r.value,'t') else r.value!r}")
    print("   facts:", [show_cond(c) for c in r.state.facts.conds])
    dump(r.events, 2)
