#!/usr/bin/env python3
"""Applies every seeded change to a scratch copy of /repo's working tree (never to /repo itself), runs all quick checks on the copy, and
records which checks fire in seeded/<id>/detection.json.  Prints the markdown table used in DESIGN.md.
usage: record_detection.py [seed ids...]"""
import json, os, subprocess, sys, tempfile, shutil
from concurrent.futures import ThreadPoolExecutor
VERIF = os.path.dirname(os.path.dirname(os.path.abspath(__file__)))
ALL = ["C01", "C02", "C03", "C04", "C07", "C08", "C09", "C10", "C11", "C12", "C13", "C15", "C16", "C17", "C18", "C19"]
def sh(*a, **k): return subprocess.run(a, capture_output=True, text=True, **k)
seeds = sys.argv[1:] or sorted(os.listdir(os.path.join(VERIF, "seeded")))


def one(sid):
    d = os.path.join(VERIF, "seeded", sid)
    patch = os.path.join(d, "patch.diff")
    if not os.path.exists(patch):
        return None
    meta = json.load(open(os.path.join(d, "meta.json")))
    tmp = tempfile.mkdtemp(prefix="nucsverif-det-")
    try:
        for sub in ("nucs", "tests"):
            shutil.copytree(os.path.join("/repo", sub), os.path.join(tmp, sub), ignore=shutil.ignore_patterns("__pycache__", "*.nbi", "*.nbc"))
        if sh("git", "apply", patch, cwd=tmp).returncode != 0:
            return (sid, meta, None, {})
        res = []
        for p in ALL:
            env = dict(os.environ, NUCSVERIF_OUT=os.path.join(tmp, "out", p), PYTHONPATH=VERIF)
            r = sh(sys.executable, "-m", "nucsverif", "check", p, "--repo", tmp, cwd=VERIF, env=env)
            lines = [l.strip() for l in r.stdout.splitlines() if l.startswith("  ") and "[" in l]
            res.append((p, r.returncode, lines))
    finally:
        shutil.rmtree(tmp, ignore_errors=True)
    fired = {p: [l[:400] for l in lines[:3]] for p, rc, lines in res if rc == 1}
    errs = [p for p, rc, _ in res if rc not in (0, 1)]
    det = {"seed": sid, "property": meta.get("property"), "checks_fired": sorted(fired), "analysis_errors": errs,
           "caught_by_own_property": meta.get("property") in fired, "reports": fired}
    json.dump(det, open(os.path.join(d, "detection.json"), "w"), indent=1)
    print(f"{sid:8s} prop={meta.get('property')} fired={sorted(fired)} err={errs}", flush=True)
    return (sid, meta, det, fired)


with ThreadPoolExecutor(8) as ex:
    rows = [r for r in ex.map(one, seeds) if r is not None]
print()
print("| seed | breaks | change | checks that fire | rule(s) |")
print("|---|---|---|---|---|")
for sid, meta, det, fired in rows:
    if det is None:
        print(f"| {sid} | {meta.get('property')} | {(meta.get('title') or '')[:110]} | patch no longer applies | |")
        continue
    rules = sorted({l.split("[", 1)[1].split("]", 1)[0] for ls in fired.values() for l in ls if "[" in l})
    own = meta.get("property")
    fl = ", ".join((f"**{p}**" if p == own else p) for p in sorted(fired)) or "— (missed)"
    print(f"| {sid} | {own} | {(meta.get('title') or '').replace('|', '/')[:120]} | {fl} | {', '.join(rules)} |")
