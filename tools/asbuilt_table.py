#!/usr/bin/env python3
"""Prints the 'as built' table of DESIGN.md section 5.x from the evidence files of the last run."""
import json, os
V = os.path.dirname(os.path.dirname(os.path.abspath(__file__)))
print("| property | obligations | functions analysed | rules |\n|---|---|---|---|")
for f in sorted(os.listdir(os.path.join(V, "evidence"))):
    d = json.load(open(os.path.join(V, "evidence", f)))
    c = d["coverage"]
    rules = c.get("rules")
    names = list(rules) if isinstance(rules, dict) else [r if isinstance(r, str) else r.get("rule", "?") for r in (rules or [])]
    seen = []
    for r in names:
        if r not in seen:
            seen.append(r)
    fa = c.get("functions_analysed")
    print(f"| {d['property_id']} | {c.get('obligations')} | {len(fa) if isinstance(fa, list) else fa} | {', '.join(seen)} |")
