#!/usr/bin/env python3
"""Writes the task files for a round of seed-writing agents: /tmp/seedprompts<R>/<P>.txt.  An agent is given ONLY the property text, its scratch
worktree and the titles of the changes earlier rounds delivered (so that it looks elsewhere); nothing from /verif's machinery.
usage: gen_seed_prompts.py <round number> [props...]"""
import glob, json, os, sys
R = sys.argv[1]
props = {json.loads(l)["id"]: json.loads(l) for l in open("/verif/properties.jsonl")}
want = sys.argv[2:] or sorted(props)
done = []
for f in sorted(glob.glob("/verif/seeded/*/meta.json")):
    m = json.load(open(f))
    if m.get("title"):
        done.append(f"  - [{m.get('property')}] {m['title']}")
os.makedirs(f"/tmp/seedprompts{R}", exist_ok=True)
for p in want:
    d = props[p]
    wt, out = f"/tmp/seedwt{R}-{p}", f"/tmp/seedout{R}/{p}"
    txt = f"""You are testing a verification effort for the open-source project yangeorget/nucs (a pure-Python, Numba-jitted finite-domain constraint solver).
Your scratch git worktree of the repository is at: {wt}
Work ONLY inside that worktree and inside your output directory {out}. Do not read or write /repo or /verif (they are off limits; what you write must be independent of them).

THE PROPERTY (this is all you are given):
id: {p}
title: {d['title']}
statement: {d['statement']}
quantified over: {json.dumps(d['quantifier'])}
why the existing tests cannot settle it: {d['why_tests_cant']}
where it lives (anchors): {json.dumps(d['anchors'])}

YOUR TASK
Produce 3 DIFFERENT, independent changes ("mutants") to the source under {wt}/nucs, each of which
  (a) BREAKS the property above (a real behavioural violation a user could hit),
  (b) still compiles/imports and leaves the existing test suite fully green (192 passed), and
  (c) is REALISTIC: it looks like a plausible refactoring slip, optimisation, off-by-one, wrong-variable, dropped-step or "simplification" a maintainer could commit -- not sabotage, no dead code that mentions the test, no special-casing of inputs.
Prefer changes that need something SPECIFIC to manifest (an unusual input or configuration, a particular multi-step sequence of operations, a particular interleaving or fault point, two cooperating sites that each look fine alone) rather than ones any ordinary use would expose at once.
The 3 changes must touch different mechanisms / different functions (ideally different files) among those relevant to the property, so that they are not variations of one idea.

For EACH change k = 1..3 deliver a directory {out}/m<k>/ containing:
  patch.diff  -- `git diff` of the change against the worktree's HEAD (must apply with `git apply` to a clean checkout of HEAD); only files under nucs/ may change; tests must not be edited.
  demo.py     -- a small self-contained program (run as `PYTHONPATH=<worktree> /venv/bin/python demo.py`, it must not hard-code the worktree path other than through imports of `nucs`) that exits with a NON-ZERO status with the change applied and exits 0 on the unchanged tree, deciding the outcome by an independent oracle (brute force, a definition-level validator, comparison of two configurations, a timeout, ...). It must finish within ~2 minutes in both cases (use your own timeouts for hangs; kill child processes you start).
  meta.json   -- {{"property": "{p}", "title": "...", "what_it_breaks": "...", "needs_to_manifest": "...", "files": [...], "ran": ["exact commands you ran and their observed results"]}}

HOW TO RUN THINGS
  * Interpreter: /venv/bin/python (Python 3.12, numba + numpy installed). Always run with PYTHONPATH={wt} and cwd={wt} so that the worktree's `nucs` package is the one imported.
  * Test suite: cd {wt} && PYTHONPATH={wt} /venv/bin/python -m pytest -q -p no:cacheprovider --timeout=900 -n 3     (expect "192 passed"; ~1-3 min).
  * IMPORTANT Numba trap: functions are compiled with cache=True and the on-disk cache does NOT notice edits in a function that is inlined from another file. Before EVERY test or demo run after changing/reverting sources, purge the caches:  find {wt} -name '*.nbi' -delete -o -name '*.nbc' -delete
  * Second Numba trap: an exception raised inside a jitted function that is reached through a function pointer (heuristics, propagators, consistency algorithms) is swallowed ("Exception ignored"); do not rely on it as an oracle.
  * NUMBA_DISABLE_JIT=1 runs everything interpreted (slow for big models, fast for tiny ones; handy while exploring). The final confirmation of the demo must be in the default (compiled) mode unless the change is specific to interpreted mode.
  * Work on one change at a time: apply, purge caches, run the full suite (must be 192 passed), run the demo (must fail), save `git diff > patch.diff`, then `git checkout -- .`, purge caches, run the demo again (must pass). Record what you ran in meta.json.
  * No network. Do not install anything. Do not leave background processes running (never use a global pkill; kill only processes you started, by pid). Do not commit in the worktree.

If after honest effort you cannot find 3 changes satisfying all of (a)-(c), deliver the ones you have and say so. In your final message list, per change, the one-line title, the files touched and the confirmation results.


ALREADY DONE BY EARLIER ROUNDS (for this and neighbouring properties) -- do NOT deliver these or close variations of them (same site with another operator, the mirrored function, the sibling heuristic / propagator); find different mechanisms, different functions, different files, different kinds of slip (this is round {R}: the obvious sites are taken, look at the less obvious ones the property also depends on):
""" + "\n".join(done) + "\n"
    open(f"/tmp/seedprompts{R}/{p}.txt", "w").write(txt)
    print(p, len(txt))
