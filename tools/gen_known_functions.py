#!/usr/bin/env python3
"""Writes nucsverif/tables/known_functions.json: the names of all functions and methods defined under /repo/nucs and /repo/tests on the
reference tree.  A function whose name is NOT in this table is a *new helper* for nucsverif/inline.py (inlined at its call sites before the
rules read the program).  Re-run after a `fix:` commit that adds or renames a function."""
import ast, json, os, subprocess
names = set()
for root in ("/repo/nucs", "/repo/tests"):
    for dp, dn, fns in os.walk(root):
        for f in fns:
            if f.endswith(".py"):
                tree = ast.parse(open(os.path.join(dp, f)).read())
                meths = set()
                for c in ast.walk(tree):
                    if isinstance(c, ast.ClassDef):
                        for b in c.body:
                            if isinstance(b, (ast.FunctionDef, ast.AsyncFunctionDef)):
                                names.add(f"{c.name}.{b.name}")   # a method is known under its class ...
                                names.add(f"*.{b.name}")          # ... and under any class (moved to a base / renamed class)
                                meths.add(id(b))
                for n in ast.walk(tree):
                    if isinstance(n, (ast.FunctionDef, ast.AsyncFunctionDef)) and id(n) not in meths:
                        names.add(n.name)                          # module-level (or nested) function: the bare name
head = subprocess.run(["git", "-C", "/repo", "rev-parse", "HEAD"], capture_output=True, text=True).stdout.strip()
out = os.path.join(os.path.dirname(os.path.dirname(os.path.abspath(__file__))), "nucsverif", "tables", "known_functions.json")
json.dump({"reference_commit": head, "names": sorted(names)}, open(out, "w"), indent=0)
print(len(names), "names ->", out)
