#!/usr/bin/env python3
"""Robustness sweep: behaviour-preserving rewrites of the WHOLE tree must leave every check at exit 0.
  roundtrip : every file re-printed by ast.unparse (layout, comments, parentheses, string quotes change; line numbers move)
  rename    : every local variable (not parameters, not globals) of every function renamed  v -> v_rn
  params    : every parameter of every njit function renamed  p -> p_rn  (all calls in nucs are positional for njit functions)
  flipcmp   : every two-operand comparison  a < b  written  b > a  (and <=, >, >=; == and != with swapped operands)
  augassign : every  x += e / x -= e / x |= e  on a plain name or subscript written  x = x + e  (no repeated side effects: names and
              subscripts of names only)
  ifelse    : every  if c: A else: B  (with an else branch that is not an elif chain) written  if not c: B else: A
  range0    : every  range(n)  written  range(0, n)
  tempret   : every  return <expression>  (not a bare name / constant) written  _ret = <expression>; return _ret
  chain     : every chained comparison  a < b < c  written  a < b and b < c  (b a name, constant or subscript of names: no repeated side effect)
usage: neutral_sweep.py [mode ...]   (all modes: see nucsverif/neutral.py)"""
import ast, os, shutil, subprocess, sys, tempfile, builtins
sys.path.insert(0, os.path.dirname(os.path.dirname(os.path.abspath(__file__))))
from nucsverif.neutral import transform, MODES
from concurrent.futures import ThreadPoolExecutor
VERIF = os.path.dirname(os.path.dirname(os.path.abspath(__file__)))
ALL = ["C01", "C02", "C03", "C04", "C07", "C08", "C09", "C10", "C11", "C12", "C13", "C15", "C16", "C17", "C18", "C19"]

def run(mode):
    tmp = tempfile.mkdtemp(prefix=f"nucsverif-neutral-{mode}-")
    try:
        for d in ("nucs", "tests"):
            shutil.copytree(os.path.join("/repo", d), os.path.join(tmp, d), ignore=shutil.ignore_patterns("__pycache__", "*.nbi", "*.nbc"))
        for dp, _, fs in os.walk(os.path.join(tmp, "nucs")):
            for f in fs:
                if f.endswith(".py"):
                    p = os.path.join(dp, f)
                    src = open(p).read()
                    new = transform(src, mode)
                    open(p, "w").write(new)
        def chk(prop):
            env = dict(os.environ, NUCSVERIF_OUT=os.path.join(tmp, "out", prop), PYTHONPATH=VERIF)
            r = subprocess.run([sys.executable, "-m", "nucsverif", "check", prop, "--repo", tmp], cwd=VERIF, env=env, capture_output=True, text=True)
            return prop, r.returncode, r.stdout
        with ThreadPoolExecutor(16) as ex:
            res = list(ex.map(chk, ALL))
        bad = [(p, rc, out) for p, rc, out in res if rc != 0]
        print(f"[{mode}] {len(ALL) - len(bad)}/{len(ALL)} checks silent")
        for p, rc, out in bad:
            lines = [l for l in out.splitlines() if l.startswith("  ") or "ANALYSIS-ERROR" in l or "VIOLATION" in l]
            print(f"  {p} exit {rc}: " + " | ".join(x.strip()[:230] for x in lines[:3]))
        return not bad
    finally:
        shutil.rmtree(tmp, ignore_errors=True)

ok = True
for mode in (sys.argv[1:] or MODES):
    ok = run(mode) and ok
sys.exit(0 if ok else 1)
