#!/usr/bin/env python3
"""Robustness sweep: behaviour-preserving rewrites of the WHOLE tree must leave every check at exit 0.
  roundtrip : every file re-printed by ast.unparse (layout, comments, parentheses, string quotes change; line numbers move)
  rename    : every local variable (not parameters, not globals) of every function renamed  v -> v_rn
  params    : every parameter of every njit function renamed  p -> p_rn  (all calls in nucs are positional for njit functions)
usage: neutral_sweep.py [roundtrip|rename|params ...]"""
import ast, os, shutil, subprocess, sys, tempfile, builtins
from concurrent.futures import ThreadPoolExecutor
VERIF = os.path.dirname(os.path.dirname(os.path.abspath(__file__)))
ALL = ["C01", "C02", "C03", "C04", "C07", "C08", "C09", "C10", "C11", "C12", "C13", "C15", "C16", "C17", "C18", "C19"]

class Renamer(ast.NodeTransformer):
    def __init__(self, mode): self.mode = mode
    def visit_FunctionDef(self, fn):
        params = {a.arg for a in fn.args.args + fn.args.posonlyargs + fn.args.kwonlyargs}
        if fn.args.vararg: params.add(fn.args.vararg.arg)
        if fn.args.kwarg: params.add(fn.args.kwarg.arg)
        stored = {n.id for n in ast.walk(fn) if isinstance(n, ast.Name) and isinstance(n.ctx, ast.Store)}
        glob = {x for n in ast.walk(fn) if isinstance(n, (ast.Global, ast.Nonlocal)) for x in n.names}
        is_njit = any("njit" in ast.unparse(d) for d in fn.decorator_list)
        nested = [n for n in ast.walk(fn) if isinstance(n, (ast.FunctionDef, ast.Lambda)) and n is not fn]
        if self.mode == "rename":
            targets = (stored - params - glob) if not nested else set()
        else:
            kwcalled = False
            targets = (params - {"self", "cls"}) if is_njit else set()
        m = {t: t + "_rn" for t in targets if not t.startswith("__")}
        if m:
            for n in ast.walk(fn):
                if isinstance(n, ast.Name) and n.id in m:
                    n.id = m[n.id]
                if self.mode == "params" and isinstance(n, ast.arg) and n.arg in m:
                    n.arg = m[n.arg]
        return fn

def transform(src, mode):
    tree = ast.parse(src)
    if mode in ("rename", "params"):
        tree = Renamer(mode).visit(tree)
    return ast.unparse(tree) + "\n"

def run(mode):
    tmp = tempfile.mkdtemp(prefix=f"nucsverif-neutral-{mode}-")
    try:
        for d in ("nucs", "tests"):
            shutil.copytree(os.path.join("/repo", d), os.path.join(tmp, d), ignore=shutil.ignore_patterns("__pycache__", "*.nbi", "*.nbc"))
        for dp, _, fs in os.walk(os.path.join(tmp, "nucs")):
            for f in fs:
                if f.endswith(".py"):
                    p = os.path.join(dp, f)
                    src = open(p).read()
                    new = transform(src, mode)
                    open(p, "w").write(new)
        def chk(prop):
            env = dict(os.environ, NUCSVERIF_OUT=os.path.join(tmp, "out", prop), PYTHONPATH=VERIF)
            r = subprocess.run([sys.executable, "-m", "nucsverif", "check", prop, "--repo", tmp], cwd=VERIF, env=env, capture_output=True, text=True)
            return prop, r.returncode, r.stdout
        with ThreadPoolExecutor(16) as ex:
            res = list(ex.map(chk, ALL))
        bad = [(p, rc, out) for p, rc, out in res if rc != 0]
        print(f"[{mode}] {len(ALL) - len(bad)}/{len(ALL)} checks silent")
        for p, rc, out in bad:
            lines = [l for l in out.splitlines() if l.startswith("  ") or "ANALYSIS-ERROR" in l or "VIOLATION" in l]
            print(f"  {p} exit {rc}: " + " | ".join(x.strip()[:230] for x in lines[:3]))
        return not bad
    finally:
        shutil.rmtree(tmp, ignore_errors=True)

ok = True
for mode in (sys.argv[1:] or ["roundtrip", "rename", "params"]):
    ok = run(mode) and ok
sys.exit(0 if ok else 1)
