#!/usr/bin/env python3
"""Regenerates /verif/MANIFEST.json from the property modules (run with /venv/bin/python tools/gen_manifest.py)."""
import importlib, json, os, sys
sys.path.insert(0, os.path.dirname(os.path.dirname(os.path.abspath(__file__))))
CLAIMED = ["C01", "C02", "C03", "C04", "C07", "C08", "C09", "C10", "C11", "C12", "C13", "C15", "C16", "C17", "C18", "C19"]
NA = {
 "C05": "per-propagator soundness ('never removes a supported value') is a numerical statement over all boxes; no structural clause is both necessary and decisive for a filtering function in general (a floor that became a ceiling, a list walked in the wrong order are indistinguishable in shape from the right code). The few agreement rules that happen to bear on filtering -- two statements of one function contradicting each other: R-SOLE-CANDIDATE, R-INTERVAL-SUM, R-VECTOR-WIDTH -- are claimed under C01 / C02 / C07, whose clauses they are; they do not decide C05. Static analysis cannot apply; a solver- or enumeration-based family would.",
 "C06": "ground decisiveness ('a violated instantiated tuple is always rejected') is a numerical result per constraint type over all tuples and parameters; not visible in the shape of the code.",
 "C14": "exact bounds hull and idempotence of each filtering function are numerical results over all boxes (floor division, Hall-interval invariants); out of reach of dataflow / abstract domains available here.",
 "C20": "validity of the combinatorial objects produced by the shipped models and their literature counts are run-time values; nothing structural to decide.",
}
TECH = {
 "C01": "abstract interpretation (affine forms + Fourier-Motzkin path facts) of the propagation loop, search loop and wake-up table; dependency analysis of propagators vs triggers; who-may-write analysis; interprocedural index-kind inference; intra-function agreement rules on filtering functions (interval sums, 32-bit vector arithmetic); intra-function agreement of division-derived bounds with their interval accumulators (rounding tags); typestate of mark arrays; who-may-write lint of the constraint list",
 "C02": "typestate over generator paths; partition algebra on abstract post-states of value heuristics; engine soundness and shaving rules shared with C01/C10 (scope table); agreement of candidate test and forced bound in aggregate constraints; coverage of the default decision set (all shared domains); division-derived bound agreement; candidate-test dominance in aggregate constraints",
 "C03": "must-precede / must-follow on abstract paths of the optimisation loops; affine equality of tightening stores; flow-sensitive maybe-None analysis of optimisation results; who-may-write lint (no solver code stores into the problem object)",
 "C04": "progress-measure rules on abstract paths; loop-variant derivation (guard measure, monotone pointer, counter sum) with Houdini invariants; structural preconditions of the Hall-interval filtering (sibling cross-check); call-graph closure of address-taken registries (no raise behind a function pointer); push on every path of every value heuristic",
 "C07": "who-may-write + path-condition analysis of enabled-flag stores; return-vocabulary check over the call graph; entailment of path facts for the index / counter / table families of entailment guards; enforce/entail and mirror agreement; in-place parameter update lint (effect summaries); who-may-write lint of the constraint list",
 "C08": "bound-dependency (taint) analysis of filtering functions against per-position trigger masks (effect calls modelled, may-dependences refused); event-mask exactness and write-back completeness on abstract paths; symbolic-offset agreement of the two halves of an enforced ordering; provenance of the trigger vector per constraint (own call in the same iteration)",
 "C09": "abstract interpretation of value heuristics from a symbolic pre-state; interval-chain oracle; bitmask inclusion; dtype agreement of index-carrying arrays",
 "C10": "abstract interpretation of the shaving probe with a callee summary; first-iteration and loop-variant analysis of the probing loop (cursor monotonicity from the value filter passed to the scan); inductive range of the bound selector over the probing loop; zero-divisor dominance behind function pointers",
 "C11": "path analysis of worker exits and of the parent receive loop (marker counting, keep-best fold, slot writes, join placement); dispatch-table tracing of the address arrays",
 "C12": "abstract interpretation of Problem.split; affine adjacency and clamp entailment; ownership analysis of the domain lists; lint of copy / pickle hooks",
 "C13": "abstract interpretation of Problem.init (Python level) against the per-constraint cache oracle; offset round-trip equalities; interprocedural index-kind inference (indices, counts, returned positions); sort-guard invalidation and posting-order-list analysis; optional-argument resolution lint (is-None dominance, no truthiness on model integers); who-may-write lint on the problem object; dtype agreement of value-carrying arrays; who-may-write lint of the constraint list; kind of the positions appended to the variable -> domain table; initial-queue completeness",
 "C15": "resolved call-graph role propagation (argument/parameter agreement), dispatch-table tracing, module-level state and mutable-default lint; narrow-dtype arithmetic lint; call-graph closure of address-taken registries; sort-stability lint; who-may-write lint on the problem object; copy-vs-alias lint of constructor arguments; complement-of-truth-value and zero-divisor lints in jitted code",
 "C16": "index-within-extent entailment from path facts for every shape index (table-free classification); assume/guarantee extent analysis of the Hall-interval helpers with inductive invariants; capacity-guard entailment; allocation-shape agreement; clamp-before-use and guard-one-off contradictions; index-kind inference; sentinel-argument exclusion at subscripts; absolute column of an index applied to a slice; extent of the wake-up table; kind of the positions appended to the variable -> domain table",
 "C17": "counter <-> event-site correspondence on abstract paths (exactly-once on event paths, never elsewhere); label/index/aggregator table agreement (dict literal or comprehension over a constant table; counters added beyond the 13 held to the same wiring); front end: behaviour-preserving inlining of new helpers",
 "C18": "structural necessary conditions (handle retention, bounded queue read, liveness-dependent exit that leaves the call, no SIGCHLD disposition, no one-shot iterator across the waiting loop) on abstract paths and the syntax tree; unbounded acquire / wait on synchronisation objects shared with the workers",
 "C19": "capacity-guard entailment on abstract paths (dtype range of the level pointer, push extent; assertions establish nothing); lint of wrapping conversions to narrow index types; dtype agreement of index-carrying arrays; narrow-dtype arithmetic lint; error-propagation lint (no exit in finally, no swallowed search error)"
}
checks = []
for pid in CLAIMED:
    mod = importlib.import_module(f"nucsverif.props.{pid.lower()}")
    checks.append({
        "property_id": pid,
        "quick_cmd": f"cd /verif && /venv/bin/python -m nucsverif check {pid} --tier quick",
        "thorough_cmd": f"cd /verif && /venv/bin/python -m nucsverif check {pid} --tier thorough",
        "evidence_file": f"/verif/evidence/{pid}.json",
        "replay_cmd_template": "cd /verif && /venv/bin/python -m nucsverif replay {path}",
        "engine": "nucsverif",
        "level_claimed": {"category": "other",
                          "text": "Static analysis of structural necessary conditions: " + mod.EXPLANATION + " Exit 1 = a rule instance is definitely broken at a named construct; "
                                  "exit 2 (ANALYSIS-ERROR) = an anchor vanished or the model no longer matches the code.",
                          "design_ref": f"DESIGN.md section 5 ({pid}) and section 4 (rule catalogue)"},
        "level_note": "Trusted base: CPython's ast module, the nucsverif program model / abstract interpreter / Fourier-Motzkin entailment, the rule and triage tables under "
                      "/verif/nucsverif. Assumes the NumPy/Numba semantics modelled for the subset used (views alias, scalar indexing copies, njit code has no bounds checks). "
                      "Decides the named structural clauses for every input; does not run or prove the behavioural property itself.",
        "technique": TECH[pid],
    })
man = {
 "version": 1,
 "setup_cmd": "true",
 "hooks": {"guard": "NUCS_VERIF", "enable": "none: static analysis reads /repo's working tree and needs no instrumentation; there are no hook commits",
           "baseline_off_cmd": "cd /repo && /venv/bin/python -m pytest -ra -q -p no:cacheprovider --timeout=900 --continue-on-collection-errors",
           "source_commits": [], "add_only": True},
 "engines": [{"name": "nucsverif", "path": "/verif/nucsverif", "serves_properties": CLAIMED,
              "kind_free_text": "pure-stdlib ast-based static analyser: program model (imports, folded constants, registries, role propagation, mod summaries), "
                                "path-sensitive abstract interpreter over affine forms with store-log memory, Fourier-Motzkin entailment, Houdini loop invariants, rule tables"}],
 "checks": checks,
 "notes": "Technique family: static analysis only (nothing under /repo is imported or executed by a check). 18 genuine defects of the pinned tree were reported by a check on the unchanged tree and then repaired by fix: commits in /repo "
          "(listed in known_findings.json under 'fixed'; none is left under 'known'). Exit codes: 0 ok, 1 VIOLATION, 2 ANALYSIS-ERROR.",
 "not_applicable": [{"property_id": k, "reason": v} for k, v in NA.items()],
}
json.dump(man, open(os.path.join(os.path.dirname(os.path.dirname(os.path.abspath(__file__))), "MANIFEST.json"), "w"), indent=1)
print("MANIFEST written:", len(checks), "checks,", len(NA), "not applicable")
