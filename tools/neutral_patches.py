#!/usr/bin/env python3
"""Runs every check on each behaviour-preserving patch of a directory tree (<dir>/**/patch.diff + meta.json), each on its own scratch copy of
/repo's working tree.  A check that exits 1 is a FALSE ALARM; exit 2 says the checker has no model of the new shape (tolerated, listed).
usage: neutral_patches.py <dir> [...]"""
import glob, json, os, shutil, subprocess, sys, tempfile
from concurrent.futures import ThreadPoolExecutor
VERIF = os.path.dirname(os.path.dirname(os.path.abspath(__file__)))
ALL = ["C01", "C02", "C03", "C04", "C07", "C08", "C09", "C10", "C11", "C12", "C13", "C15", "C16", "C17", "C18", "C19"]


def one(patch):
    tmp = tempfile.mkdtemp(prefix="nucsverif-neut-")
    try:
        for sub in ("nucs", "tests"):
            shutil.copytree(os.path.join("/repo", sub), os.path.join(tmp, sub), ignore=shutil.ignore_patterns("__pycache__", "*.nbi", "*.nbc"))
        if subprocess.run(["git", "apply", patch], cwd=tmp, capture_output=True).returncode != 0:
            return patch, "PATCH-FAILS", []
        out = []
        for p in ALL:
            env = dict(os.environ, NUCSVERIF_OUT=os.path.join(tmp, "out", p), PYTHONPATH=VERIF)
            r = subprocess.run([sys.executable, "-m", "nucsverif", "check", p, "--repo", tmp], cwd=VERIF, env=env, capture_output=True, text=True)
            if r.returncode != 0:
                lines = [l.strip()[:330] for l in r.stdout.splitlines() if (l.startswith("  ") and "[" in l) or "ANALYSIS-ERROR" in l]
                out.append((p, r.returncode, lines[:2]))
        return patch, "ok", out
    finally:
        shutil.rmtree(tmp, ignore_errors=True)


patches = sorted(p for d in sys.argv[1:] for p in glob.glob(os.path.join(d, "**", "patch.diff"), recursive=True))
with ThreadPoolExecutor(6) as ex:
    for patch, st, out in ex.map(one, patches):
        try:
            title = json.load(open(os.path.join(os.path.dirname(patch), "meta.json"))).get("title", "")[:110]
        except Exception:
            title = ""
        fa = [p for p, rc, _ in out if rc == 1]
        e2 = [p for p, rc, _ in out if rc == 2]
        print(f"{patch}: {st} FALSE-ALARM={fa} exit2={e2}  -- {title}", flush=True)
        for p, rc, lines in out:
            for l in lines:
                print(f"      {p}({rc}) {l}")
