#!/usr/bin/env python3
"""Robustness sweep no. 2: *additions* a maintainer could make that keep every property -- new propagators, heuristics, a consistency
algorithm, an example model, convenience methods -- built as copies of existing, correct code under new names and registered the way the
package registers its own.  No check may report a VIOLATION on them (exit 0, or exit 2 where the checker says it has no model of the
addition).  Works on scratch copies of /repo's working tree; never touches /repo.
usage: feature_sweep.py [scenario ...]"""
import glob, os, re, shutil, subprocess, sys, tempfile
from concurrent.futures import ThreadPoolExecutor
VERIF = os.path.dirname(os.path.dirname(os.path.abspath(__file__)))
ALL = ["C01", "C02", "C03", "C04", "C07", "C08", "C09", "C10", "C11", "C12", "C13", "C15", "C16", "C17", "C18", "C19"]


def rd(p): return open(p).read()
def wr(p, s): open(p, "w").write(s)


def new_propagators(t):
    for src, new in (("affine_leq", "affine_lt2"), ("element_iv", "element_iv2"), ("alldifferent", "alldifferent2"), ("max_eq", "max_eq2")):
        s = re.sub(rf"\b(get_triggers|get_complexity|compute_domains)_{src}\b", rf"\1_{new}", rd(f"{t}/nucs/propagators/{src}_propagator.py"))
        wr(f"{t}/nucs/propagators/{new}_propagator.py", s)
        p = rd(f"{t}/nucs/propagators/propagators.py")
        imp = f"from nucs.propagators.{new}_propagator import (\n    compute_domains_{new},\n    get_complexity_{new},\n    get_triggers_{new},\n)\n"
        p = p.replace("from nucs.propagators.affine_leq_propagator import (", imp + "from nucs.propagators.affine_leq_propagator import (", 1)
        wr(f"{t}/nucs/propagators/propagators.py", p.rstrip("\n") + f"\nALG_{new.upper()} = register_propagator(get_triggers_{new}, get_complexity_{new}, compute_domains_{new})\n")


def new_heuristics(t):
    for src, new, kind, const in (("split_low_dom_heuristic", "halve_dom_heuristic", "dom", "DOM_HEURISTIC_HALVE"), ("mid_value_dom_heuristic", "centre_dom_heuristic", "dom", "DOM_HEURISTIC_CENTRE"),
                                  ("greatest_domain_var_heuristic", "widest_var_heuristic", "var", "VAR_HEURISTIC_WIDEST"), ("max_regret_var_heuristic", "regret2_var_heuristic", "var", "VAR_HEURISTIC_REGRET2")):
        wr(f"{t}/nucs/heuristics/{new}.py", re.sub(rf"\b{src}\b", new, rd(f"{t}/nucs/heuristics/{src}.py")))
        p = rd(f"{t}/nucs/heuristics/heuristics.py")
        p = p.replace("from nucs.heuristics.min_value_dom_heuristic import min_value_dom_heuristic\n", f"from nucs.heuristics.{new} import {new}\nfrom nucs.heuristics.min_value_dom_heuristic import min_value_dom_heuristic\n", 1)
        wr(f"{t}/nucs/heuristics/heuristics.py", p.rstrip("\n") + f"\n{const} = register_{kind}_heuristic({new})\n")


def new_algorithm(t):
    wr(f"{t}/nucs/solvers/eager_consistency_algorithm.py", rd(f"{t}/nucs/solvers/bound_consistency_algorithm.py").replace("def bound_consistency_algorithm(", "def eager_consistency_algorithm("))
    p = rd(f"{t}/nucs/solvers/consistency_algorithms.py")
    p = p.replace("from nucs.solvers.shaving_consistency_algorithm import shaving_consistency_algorithm\n",
                  "from nucs.solvers.shaving_consistency_algorithm import shaving_consistency_algorithm\nfrom nucs.solvers.eager_consistency_algorithm import eager_consistency_algorithm\n")
    wr(f"{t}/nucs/solvers/consistency_algorithms.py", p.rstrip("\n") + "\nCONSISTENCY_ALG_EAGER = register_consistency_algorithm(eager_consistency_algorithm)\n")


def new_model_and_methods(t):
    shutil.copytree(f"{t}/nucs/examples/queens", f"{t}/nucs/examples/queens2")
    for f in glob.glob(f"{t}/nucs/examples/queens2/*.py"):
        wr(f, rd(f).replace("nucs.examples.queens.", "nucs.examples.queens2.").replace("QueensProblem", "Queens2Problem"))
    s = rd(f"{t}/nucs/solvers/solver.py")
    i = s.index("    def find_all(self)")
    wr(f"{t}/nucs/solvers/solver.py", s[:i] + "    def find_first(self, n: int) -> List[NDArray]:\n        solutions: List[NDArray] = []\n        for solution in self.solve():\n"
       "            solutions.append(solution)\n            if len(solutions) >= n:\n                break\n        return solutions\n\n" + s[i:])
    s = rd(f"{t}/nucs/solvers/backtrack_solver.py")
    i = s.index("    def solve(self) -> Iterator[NDArray]:")
    wr(f"{t}/nucs/solvers/backtrack_solver.py", s[:i] + "    def has_solution(self) -> bool:\n        return next(self.solve(), None) is not None\n\n" + s[i:])


SCENARIOS = {"new-propagators": new_propagators, "new-heuristics": new_heuristics, "new-consistency-algorithm": new_algorithm, "new-model-and-methods": new_model_and_methods}


def run(name):
    tmp = tempfile.mkdtemp(prefix=f"nucsverif-feature-{name}-")
    try:
        for d in ("nucs", "tests"):
            shutil.copytree(os.path.join("/repo", d), os.path.join(tmp, d), ignore=shutil.ignore_patterns("__pycache__", "*.nbi", "*.nbc"))
        SCENARIOS[name](tmp)
        for f in glob.glob(f"{tmp}/nucs/**/*.py", recursive=True):
            compile(rd(f), f, "exec")

        def chk(prop):
            env = dict(os.environ, NUCSVERIF_OUT=os.path.join(tmp, "out", prop), PYTHONPATH=VERIF)
            r = subprocess.run([sys.executable, "-m", "nucsverif", "check", prop, "--repo", tmp], cwd=VERIF, env=env, capture_output=True, text=True)
            return prop, r.returncode, r.stdout
        with ThreadPoolExecutor(16) as ex:
            res = list(ex.map(chk, ALL))
        alarms = [(p, out) for p, rc, out in res if rc == 1]
        unmodelled = [p for p, rc, out in res if rc == 2]
        print(f"[{name}] {sum(1 for _, rc, _ in res if rc == 0)}/16 silent, {len(unmodelled)} 'not analysed' (exit 2: {', '.join(unmodelled) or '-'}), {len(alarms)} VIOLATION")
        for p, out in alarms:
            print(f"  {p}: " + " | ".join(l.strip()[:230] for l in out.splitlines() if l.startswith("  "))[:700])
        return not alarms
    finally:
        shutil.rmtree(tmp, ignore_errors=True)


ok = True
for nm in (sys.argv[1:] or list(SCENARIOS)):
    ok = run(nm) and ok
sys.exit(0 if ok else 1)
