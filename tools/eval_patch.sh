#!/bin/bash
# usage: eval_patch.sh <patch.diff> [props...]   -- applies the patch to /repo, runs the quick checks, reverts.
set -u
P="$1"; shift
PROPS="${@:-C01 C02 C03 C04 C07 C08 C09 C10 C11 C12 C13 C15 C16 C17 C18 C19}"
cd /repo || exit 2
if ! git diff --quiet; then echo "repo dirty"; exit 2; fi
git apply "$P" || { echo "patch does not apply"; exit 2; }
export NUCSVERIF_OUT=$(mktemp -d)
cd /verif
FIRED=""
for c in $PROPS; do
  [ -f /verif/nucsverif/props/$(echo $c | tr A-Z a-z).py ] || continue
  out=$(/venv/bin/python -m nucsverif check $c 2>&1); rc=$?
  if [ $rc -ne 0 ]; then FIRED="$FIRED $c($rc)"; echo "--- $c rc=$rc"; echo "$out" | grep -v '^VIOLATION' | cut -c1-260 | head -4; fi
done
rm -rf "$NUCSVERIF_OUT"
git -C /repo checkout -- .
echo "FIRED:${FIRED:- none}"
