#!/bin/bash
# usage: eval_patch.sh <patch.diff> [props...]   -- runs the quick checks on a scratch copy of /repo with the patch applied.
# (Until round 6 this script applied the patch to /repo itself and reverted it afterwards; a background sweep that copied /repo in between
#  got polluted verdicts.  It now delegates to try_patch.py, which never touches /repo.)
exec /venv/bin/python "$(dirname "$0")/try_patch.py" "$@"
