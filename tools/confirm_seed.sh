#!/bin/bash
# usage: confirm_seed.sh <seed dir with patch.diff demo.py meta.json> <seed name>
# Confirms in a scratch worktree: (1) test suite passes with the change, (2) demo fails with it, (3) demo passes without it.
# On success copies the seed to /verif/seeded/<name>/ and records what was run in confirm.json.
set -u
SRC="$1"; NAME="$2"
WT=/tmp/confirm-wt-$NAME
rm -rf "$WT"; git -C /repo worktree prune; git -C /repo worktree add -q --detach "$WT" HEAD || exit 2
cd "$WT"
purge() { find "$WT" -name '*.nbi' -delete -o -name '*.nbc' -delete; }
git apply "$SRC/patch.diff" || { echo "PATCH-FAILS"; git -C /repo worktree remove --force "$WT"; exit 2; }
purge
T=$(PYTHONPATH=$WT timeout 1500 /venv/bin/python -m pytest -q -p no:cacheprovider --timeout=900 -n 6 2>&1 | tail -1)
cp "$SRC/demo.py" "$WT/_demo.py"
PYTHONPATH=$WT timeout 900 /venv/bin/python _demo.py > /tmp/confirm-$NAME-with.log 2>&1; RC_WITH=$?
git checkout -q -- . ; purge
PYTHONPATH=$WT timeout 900 /venv/bin/python _demo.py > /tmp/confirm-$NAME-without.log 2>&1; RC_WITHOUT=$?
cd /; git -C /repo worktree remove --force "$WT"
echo "$NAME tests=[$T] demo_with=$RC_WITH demo_without=$RC_WITHOUT"
if echo "$T" | grep -q "192 passed" && [ $RC_WITH -ne 0 ] && [ $RC_WITHOUT -eq 0 ]; then
  mkdir -p /verif/seeded/$NAME
  cp "$SRC/patch.diff" "$SRC/demo.py" /verif/seeded/$NAME/
  cp "$SRC/meta.json" /verif/seeded/$NAME/agent_meta.json
  /venv/bin/python - "$NAME" "$T" $RC_WITH $RC_WITHOUT <<'PY'
import json,sys
name,t,rw,rwo=sys.argv[1:5]
am=json.load(open(f'/verif/seeded/{name}/agent_meta.json'))
meta={"property":am.get("property"),"title":am.get("title"),"what_it_breaks":am.get("what_it_breaks"),"needs_to_manifest":am.get("needs_to_manifest"),"files":am.get("files"),
 "confirmed_by_me":{"worktree":"scratch worktree of /repo HEAD under /tmp, removed afterwards","numba_cache":"purged before every run",
   "test_suite_with_change":t,"demo_exit_with_change":int(rw),"demo_exit_without_change":int(rwo),
   "commands":["git apply patch.diff","PYTHONPATH=<wt> /venv/bin/python -m pytest -q -p no:cacheprovider --timeout=900 -n 6","PYTHONPATH=<wt> /venv/bin/python demo.py (with change)","git checkout -- . ; PYTHONPATH=<wt> /venv/bin/python demo.py (without change)"]}}
json.dump(meta,open(f'/verif/seeded/{name}/meta.json','w'),indent=1)
PY
  echo "CONFIRMED $NAME"
else
  echo "REJECTED $NAME"; tail -3 /tmp/confirm-$NAME-with.log; tail -3 /tmp/confirm-$NAME-without.log
fi
