#!/usr/bin/env python3
"""For every breaking variant, run ALL property checks on the scratch copy and list the properties that fire although the variant is not
tagged with them (candidates for cross-property false alarms, to be reviewed by hand).  usage: cross_matrix.py [out.json]"""
import json, os, sys
sys.path.insert(0, os.path.dirname(os.path.dirname(os.path.abspath(__file__))))
from concurrent.futures import ThreadPoolExecutor
from nucsverif import selftest
from nucsverif.tables.variants import VARIANTS
ALL = ["C01", "C02", "C03", "C04", "C07", "C08", "C09", "C10", "C11", "C12", "C13", "C15", "C16", "C17", "C18", "C19"]
tasks = [(v, p) for v in VARIANTS for p in ALL]
with ThreadPoolExecutor(max_workers=16) as ex:
    res = list(ex.map(lambda t: selftest._run_one(dict(t[0], kind="break", expect_fn=None, expect_rule=None), t[1], "/repo"), tasks))
by = {}
for (v, p), r in zip(tasks, res):
    by.setdefault(v["id"], {"kind": v["kind"], "tagged": v["properties"], "what": v.get("what", ""), "fired": [], "err": []})
    if r["verdict"] in ("fired", "fired-elsewhere"):
        by[v["id"]]["fired"].append(p)
    elif r["verdict"] == "analysis-error":
        by[v["id"]]["err"].append(p)
for vid, d in by.items():
    extra = [p for p in d["fired"] if p not in d["tagged"]]
    if extra or d["err"] or (d["kind"] == "neutral" and d["fired"]):
        print(f"{vid:42s} {d['kind']:8s} tagged={d['tagged']} EXTRA={extra} ERR={d['err']}  -- {d['what'][:80]}")
json.dump(by, open(sys.argv[1] if len(sys.argv) > 1 else "/tmp/cross_matrix.json", "w"), indent=1)
